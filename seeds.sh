#!/bin/bash
# usage: seeds.sh <tier> <seed>... - runs every registered check for each seed; prints one line per (check, seed)
tier="$1"; shift
for s in "$@"; do
  for p in C01 C02 C03 C04 C06 C12 C13 C14 C15 C16 C17 C18 C20; do
    out=$(VERIF_SEED=$s ./check $p $tier 2>&1); rc=$?
    echo "seed=$s $p rc=$rc $(echo "$out" | grep -E 'VIOLATION|INFRA|KNOWN' | head -3 | tr '\n' ' ') $(echo "$out" | tail -1)"
  done
done
