#!/usr/bin/env python3
# usage: mkwave.py <suffix-letter> [flavours.json] [Cxx,Cyy,...]  - prepares /tmp/mut/<Cxx><suffix> worktrees and prompts for a wave of seeded-change agents.
# The prompt contains only the property text, earlier contributors' bug ideas (for variety) and a variety hint - nothing about /verif's checks.
import json,subprocess,os,glob,sys
suffix=sys.argv[1]
flav=json.load(open(sys.argv[2])) if len(sys.argv)>2 else {}
props={json.loads(l)['id']:json.loads(l) for l in open('/verif/properties.jsonl')}
prev={}
for f in sorted(glob.glob('/verif/seeded/*/meta.json')):
    m=json.load(open(f)); prev.setdefault(m['property'],[]).append(m.get('summary',m.get('breaks',''))[:200].replace('\n',' '))
T='''You are helping test a verification effort for the Go project akalin/gopar (a Go implementation of the PAR1 and PAR2 parity-archive formats with its own GF(2^16) arithmetic, Reed-Solomon coder and a `par` CLI). You have your own scratch git worktree of the repository at {wt} . Work ONLY inside {wt} (source edits) and {out} (your deliverables). Never read or write anything under /repo or /verif.

Every shell call needs: export GOFLAGS=-mod=mod GOPROXY=off GOSUMDB=off GOTOOLCHAIN=local   (no network; default `go` is 1.23). Run the test suite with: cd {wt} && go test -count=1 ./...

Here is a semantic property that the project is supposed to satisfy:

  Title: {title}
  Statement: {statement}
  Quantified over: {quant}

YOUR TASK: produce a realistic change (a "seeded bug") to the NON-test Go source of the project in {wt} that BREAKS this property, while
  (a) the project still compiles (go build ./... and go vet ./... clean enough to build),
  (b) the existing test suite, unedited, still passes completely (go test -count=1 ./...),
  (c) the breakage needs something SPECIFIC to manifest - e.g. a particular interleaving of goroutines, a crash or I/O fault at a particular point, a multi-step sequence of operations, an unusual input (particular sizes/offsets/counts/content/names), or two cooperating sites that each look fine alone. It must NOT be something that ordinary simple use would expose at once, and it should look like a plausible programmer mistake or plausible "optimisation"/refactoring gone wrong, not sabotage that announces itself. Make it as HARD TO NOTICE as you can while still being a real violation of the property as stated (think about what a randomised tester with small inputs would be unlikely to hit) - but it must be a violation under inputs/conditions that the property's quantifier actually covers.
Earlier contributors already used the following ideas, so choose a DIFFERENT mechanism:
{prev}
Hint for variety: {flavour}
Do not edit any *_test.go file, do not edit files named verif_*.go and do not remove the calls to verifStep/verifFork/verifEnter/verifExit/verifJoin/verifJoined in rsec16/matrix.go (they are inert instrumentation). Keep the change small (ideally < 30 changed lines). Do not add new dependencies.

Also write a DEMONSTRATION: a Go test file (a NEW _test.go file in the appropriate package; for the CLI a test that builds and runs ./cmd/par with os/exec is fine) that FAILS with your change applied and PASSES on the original code. Verify both directions yourself (use `git diff > patch; git checkout .; ...; git apply patch` inside {wt}).

Deliverables, all in {out}/ :
  - patch.diff : output of `git diff` in {wt} containing ONLY the source change (not the demonstration), applicable with `git apply` at the worktree root.
  - the demonstration _test.go file(s) (all in ONE package directory), plus demo.md saying exactly which package directory to put them in and which `go test -run` command to run, the expected failing output with the patch and passing output without.
  - meta.json : {{"property": "{pid}", "summary": "...what the change does...", "needs": "...what specific condition is needed for it to manifest...", "demo_package": "<package dir relative to repo root, e.g. par2>", "demo_run_regex": "<regex for go test -run>", "demo_tags": "<build tags needed by the demo, usually empty>", "files_changed": [...], "commands_run": [...]}}
Before finishing, leave {wt} with your source change applied and confirm `go test -count=1 ./...` passes there WITHOUT your demonstration file present (move the demonstration only to {out}). Your final message should briefly state what the change is, what it needs to manifest, and confirm the checks you ran.
'''
os.makedirs('/tmp/mut',exist_ok=True)
ALL=['C01','C02','C03','C04','C06','C12','C13','C14','C15','C16','C17','C18','C20']
for pid in (sys.argv[3].split(',') if len(sys.argv)>3 else ALL):
    wid=pid+suffix
    p=props[pid]
    subprocess.run(['git','-C','/repo','worktree','add','-q','--detach',f'/tmp/mut/{wid}','HEAD'],check=True)
    os.makedirs(f'/tmp/mut/{wid}.out',exist_ok=True)
    pv='\n'.join('  - '+x for x in prev.get(pid,[]))
    open(f'/tmp/mut/{wid}.prompt','w').write(T.format(wt=f'/tmp/mut/{wid}',out=f'/tmp/mut/{wid}.out',title=p['title'],statement=p['statement'],quant=p['quantifier']['text'],pid=pid,prev=pv,flavour=flav.get(pid,'anything not listed above')))
print('prepared wave',suffix)
