#!/bin/bash
# Sensitivity regression: every seeded change (/verif/seeded/*/patch.diff) and hand-made mutant
# (/verif/mutants/*.patch) is applied to a scratch copy of /repo and the owning property's quick
# check is run against the copy (VERIF_REPO). Prints one line per change; exit 1 if one is missed.
cd "$(dirname "$0")"
missed=0
run() { # name prop patch
  out=$(VERIF_BUDGET_S="${VERIF_BUDGET_S:-70}" ./mutant-test.sh "$3" "$2" 2>&1)
  k=$(echo "$out" | grep -E '^  kind=' | head -1 | sed 's/ detail=.*//')
  if echo "$out" | grep -q '^VIOLATION'; then echo "CAUGHT  $1 by $2 $k"; else echo "MISSED  $1 by $2"; missed=1; fi
}
for d in seeded/*/; do id=$(basename $d); prop=$(python3 -c "import json;print(json.load(open('$d/meta.json'))['property'])"); run "seeded/$id" "$prop" "$d/patch.diff"; done
for f in mutants/*.patch; do n=$(basename $f .patch); run "mutants/$n" "${n%%-*}" "$f"; done
exit $missed
