// Package simdisk is the simulated disk that sits behind gopar's fileIO
// seam: an in-memory POSIX-like tree with a virtual working directory,
// a complete access log, and a fault plan (I/O errors, torn writes,
// crashes) addressed by I/O call index.
package simdisk

import (
	"time"
	"errors"
	"fmt"
	"io"
	"os"
	"path/filepath"
	"sort"
	"strings"
	"sync"
	"syscall"
)

// Kind of an injected fault.
type Kind int

// Fault kinds. Read kinds apply to ReadFile, GlobEIO to
// FindWithPrefixAndSuffix, the rest to WriteFile.
const (
	None Kind = iota
	ReadEIO
	ReadPartialEIO
	GlobEIO
	WriteENOSPC   // error, no effect at all
	WriteTorn     // file replaced by a prefix of the new data, then error
	WriteLateErr  // data complete, error returned
	Crash         // torn write, then the operation is aborted (CrashPanic)
	WriteTruncErr // file truncated to zero length (O_TRUNC happened), then error
)

var kindNames = map[Kind]string{None: "", ReadEIO: "read-eio", ReadPartialEIO: "read-partial-eio", GlobEIO: "glob-eio",
	WriteENOSPC: "write-enospc", WriteTorn: "write-torn", WriteLateErr: "write-late-error", Crash: "crash", WriteTruncErr: "write-trunc-error"}

func (k Kind) String() string { return kindNames[k] }

// AppliesTo says whether kind k can be injected into an access of op.
func (k Kind) AppliesTo(op byte) bool {
	switch k {
	case ReadEIO, ReadPartialEIO:
		return op == 'R'
	case GlobEIO:
		return op == 'G'
	case WriteENOSPC, WriteTorn, WriteLateErr, Crash, WriteTruncErr:
		return op == 'W'
	}
	return false
}

// Fault is one planned fault: it fires at the I/O call with index Index
// (counted from the last BeginOp) if the kind applies to that call.
type Fault struct {
	Index int
	Kind  Kind
	// Keep is the number of bytes that survive for torn/partial kinds
	// (clipped to the data length).
	Keep int
	// NthWrite, when > 0, addresses the fault to the n-th write call of
	// the operation instead of an I/O call index; KeepPermille then gives
	// the surviving prefix as a fraction of the data.
	NthWrite     int
	KeepPermille int
	// Path (with Op and Occ), when non-empty, addresses the fault to the
	// Occ-th call (1-based) of kind Op on that resolved path (for a
	// listing: the pattern) instead of a global call index - an address
	// that stays meaningful when the code under test issues its I/O calls
	// from several goroutines in varying order.
	Path string
	Op   byte
	Occ  int
	// ErrStyle selects which error value the faulty call returns (what
	// real systems hand back differs, and code that inspects errors by
	// identity or type can tell them apart): 0 the usual *os.PathError
	// (EIO, or ENOSPC for the effect-free write failure); 1 another
	// errno (EACCES for reads and listings, EDQUOT / EROFS for writes);
	// 2 io.ErrShortWrite / io.ErrUnexpectedEOF as ioutil.WriteFile and
	// io.ReadFull produce them; 3 the same wrapped with %w; 4 an errno
	// that calls itself temporary (EINTR, ETIMEDOUT, EMFILE).
	ErrStyle int
}

// faultErr builds the error a faulty call returns.
func faultErr(op byte, p string, f Fault) error {
	switch f.ErrStyle {
	case 1:
		switch {
		case op == 'W' && f.Kind == WriteENOSPC:
			return pathErr("write", p, syscall.EDQUOT)
		case op == 'W':
			return pathErr("write", p, syscall.EROFS)
		case op == 'G':
			return pathErr("open", p, syscall.EACCES)
		}
		return pathErr("open", p, syscall.EACCES)
	case 2:
		if op == 'W' {
			return io.ErrShortWrite
		}
		return io.ErrUnexpectedEOF
	case 3:
		if op == 'W' {
			return fmt.Errorf("write %s: %w", p, io.ErrShortWrite)
		}
		return fmt.Errorf("read %s: %w", p, io.ErrUnexpectedEOF)
	case 4:
		// errnos that report themselves as temporary (Temporary() is true):
		// an interrupted call, a timed-out network mount, no descriptors left
		switch op {
		case 'W':
			return pathErr("write", p, syscall.EINTR)
		case 'G':
			return pathErr("open", p, syscall.EMFILE)
		}
		return pathErr("read", p, syscall.ETIMEDOUT)
	}
	switch {
	case op == 'W' && f.Kind == WriteENOSPC:
		return pathErr("write", p, syscall.ENOSPC)
	case op == 'W':
		return pathErr("write", p, syscall.EIO)
	}
	return pathErr("read", p, syscall.EIO)
}

// CrashPanic is kept for callers that recover it; crashes no longer panic.
type CrashPanic struct{ Seq int }

var errCrashed = errors.New("simulated crash: the process no longer exists")

// Crashed reports whether the current operation was killed by a Crash fault.
func (m *Mem) Crashed() bool {
	m.mu.Lock()
	defer m.mu.Unlock()
	return m.crashed
}

// Access is one entry of the access log.
type Access struct {
	Seq      int
	Op       byte // 'R', 'W', 'G'
	Path     string
	Resolved string
	N        int
	Err      string
	NotExist bool
	Fault    Kind
	Kept     int    // bytes that reached the disk for a faulted write
	Data     []byte // for writes: the bytes the caller asked to write
	Matches  []string
}

func (a Access) String() string {
	s := fmt.Sprintf("%d %c %s -> %s n=%d", a.Seq, a.Op, a.Path, a.Resolved, a.N)
	if a.Err != "" {
		s += " err=" + a.Err
	}
	if a.Fault != None {
		s += fmt.Sprintf(" FAULT=%s kept=%d", a.Fault, a.Kept)
	}
	if a.Op == 'G' {
		s += fmt.Sprintf(" matches=%v", a.Matches)
	}
	return s
}

// Mem is the in-memory disk.
type Mem struct {
	// mu makes the fileIO methods safe for concurrent use (gopar calls
	// them from one goroutine today; should that change, a race report
	// must point at gopar, not at the simulated disk)
	mu    sync.Mutex
	Files map[string][]byte
	Dirs  map[string]bool
	Cwd   string

	Log      []Access
	seq      int
	opIndex  int
	opWrites int
	Plan     []Fault
	Fired    []Access
	// Order, when non-nil, permutes directory listings (the interface
	// promises no order); otherwise listings are sorted like Glob.
	Order func(n int) []int
	// Frozen, when set, makes every write fail the run (used to assert
	// that nothing writes after a crash).
	crashed bool
	// Slow: reads of these (resolved) paths take that long in real time
	// before they happen (a straggling read among fast ones).
	Slow map[string]time.Duration
	occ     map[string]int // per (op, path) call counts of the current operation
}

// NewMem returns an empty disk with "/" as the only directory.
func NewMem() *Mem {
	return &Mem{Files: map[string][]byte{}, Dirs: map[string]bool{"/": true}, Cwd: "/"}
}

// Clone returns a deep-enough copy: file contents are shared (they are
// never mutated in place), maps are copied. Log, plan and counters are
// reset.
func (m *Mem) Clone() *Mem {
	c := &Mem{Files: make(map[string][]byte, len(m.Files)), Dirs: make(map[string]bool, len(m.Dirs)), Cwd: m.Cwd, Order: m.Order, Slow: m.Slow}
	for k, v := range m.Files {
		c.Files[k] = v
	}
	for k := range m.Dirs {
		c.Dirs[k] = true
	}
	return c
}

// Snapshot returns a copy of the file map (contents shared).
func (m *Mem) Snapshot() map[string][]byte {
	s := make(map[string][]byte, len(m.Files))
	for k, v := range m.Files {
		s[k] = v
	}
	return s
}

// Resolve makes p absolute against the virtual working directory.
func (m *Mem) Resolve(p string) string {
	if !filepath.IsAbs(p) {
		p = filepath.Join(m.Cwd, p)
	}
	return filepath.Clean(p)
}

// MkdirAll creates dir and its parents.
func (m *Mem) MkdirAll(dir string) {
	dir = m.Resolve(dir)
	for {
		m.Dirs[dir] = true
		if dir == "/" {
			return
		}
		dir = filepath.Dir(dir)
	}
}

// Put stores a file directly (world action, not logged as I/O),
// creating parent directories.
func (m *Mem) Put(p string, data []byte) {
	p = m.Resolve(p)
	m.MkdirAll(filepath.Dir(p))
	m.Files[p] = append([]byte(nil), data...)
}

// Remove deletes a file directly (world action).
func (m *Mem) Remove(p string) { delete(m.Files, m.Resolve(p)) }

// Get returns the stored bytes (not a copy) and whether the file exists.
func (m *Mem) Get(p string) ([]byte, bool) {
	d, ok := m.Files[m.Resolve(p)]
	return d, ok
}

func (m *Mem) slowFor(p string) time.Duration {
	m.mu.Lock()
	defer m.mu.Unlock()
	if len(m.Slow) == 0 {
		return 0
	}
	return m.Slow[m.Resolve(p)]
}

// BeginOp resets the per-operation I/O call index and installs a plan.
func (m *Mem) BeginOp(plan []Fault) {
	m.mu.Lock()
	defer m.mu.Unlock()
	m.occ = map[string]int{}
	m.opIndex = 0
	m.opWrites = 0
	m.Plan = plan
	m.Fired = nil
	m.crashed = false
}

// OpCalls returns the number of I/O calls since BeginOp.
func (m *Mem) OpCalls() int {
	m.mu.Lock()
	defer m.mu.Unlock()
	return m.opIndex
}

// LogFrom returns the accesses with Seq >= seq.
func (m *Mem) LogFrom(seq int) []Access {
	for i, a := range m.Log {
		if a.Seq >= seq {
			return m.Log[i:]
		}
	}
	return nil
}

// Seq returns the next global sequence number.
func (m *Mem) Seq() int {
	m.mu.Lock()
	defer m.mu.Unlock()
	return m.seq
}

func (m *Mem) fault(op byte, addr ...string) (Fault, bool) {
	idx := m.opIndex
	m.opIndex++
	if op == 'W' {
		m.opWrites++
	}
	occ := 0
	if len(addr) > 0 {
		if m.occ == nil {
			m.occ = map[string]int{}
		}
		k := string(op) + addr[0]
		m.occ[k]++
		occ = m.occ[k]
	}
	for _, f := range m.Plan {
		if f.Path != "" {
			if len(addr) > 0 && f.Op == op && f.Path == addr[0] && f.Occ == occ && f.Kind.AppliesTo(op) {
				return f, true
			}
			continue
		}
		if f.NthWrite > 0 {
			if op == 'W' && f.NthWrite == m.opWrites && f.Kind.AppliesTo(op) {
				return f, true
			}
			continue
		}
		if f.Index == idx && f.Kind.AppliesTo(op) {
			return f, true
		}
	}
	return Fault{}, false
}

func (m *Mem) record(a Access) {
	a.Seq = m.seq
	m.seq++
	m.Log = append(m.Log, a)
	if a.Fault != None {
		m.Fired = append(m.Fired, a)
	}
}

func pathErr(op, p string, e syscall.Errno) error {
	return &os.PathError{Op: op, Path: p, Err: e}
}

// parentState checks that every proper ancestor of resolved path p is a
// directory.
func (m *Mem) parentErr(p string) syscall.Errno {
	dir := filepath.Dir(p)
	// find the deepest existing ancestor
	cur := dir
	var missing bool
	for {
		if m.Dirs[cur] {
			break
		}
		if _, isFile := m.Files[cur]; isFile {
			return syscall.ENOTDIR
		}
		missing = true
		if cur == "/" {
			break
		}
		cur = filepath.Dir(cur)
	}
	if missing {
		return syscall.ENOENT
	}
	return 0
}

// ReadFile implements gopar's fileIO.
func (m *Mem) ReadFile(p string) ([]byte, error) {
	if d := m.slowFor(p); d > 0 {
		time.Sleep(d)
	}
	m.mu.Lock()
	defer m.mu.Unlock()
	if m.crashed {
		return nil, errCrashed
	}
	r := m.Resolve(p)
	f, has := m.fault('R', r)
	a := Access{Op: 'R', Path: p, Resolved: r}
	if has && f.Kind == ReadEIO {
		err := faultErr('R', p, f)
		a.Fault, a.Err = f.Kind, err.Error()
		m.record(a)
		return nil, err
	}
	if p == "" {
		err := pathErr("open", p, syscall.ENOENT)
		a.Err, a.NotExist = err.Error(), true
		m.record(a)
		return nil, err
	}
	if m.Dirs[r] {
		err := pathErr("read", p, syscall.EISDIR)
		a.Err = err.Error()
		m.record(a)
		return nil, err
	}
	data, ok := m.Files[r]
	if !ok {
		e := m.parentErr(r)
		if e == 0 {
			e = syscall.ENOENT
		}
		err := pathErr("open", p, e)
		a.Err, a.NotExist = err.Error(), e == syscall.ENOENT
		m.record(a)
		return nil, err
	}
	// A trailing slash on a regular file is ENOTDIR on a real disk.
	if strings.HasSuffix(p, "/") {
		err := pathErr("open", p, syscall.ENOTDIR)
		a.Err = err.Error()
		m.record(a)
		return nil, err
	}
	if has && f.Kind == ReadPartialEIO {
		keep := f.Keep
		if keep > len(data) {
			keep = len(data)
		}
		err := faultErr('R', p, f)
		a.Fault, a.Err, a.N, a.Kept = f.Kind, err.Error(), keep, keep
		m.record(a)
		return append([]byte(nil), data[:keep]...), err
	}
	a.N = len(data)
	m.record(a)
	// exact-capacity copy: a real disk never aliases its storage
	out := make([]byte, len(data))
	copy(out, data)
	return out, nil
}

// WriteFile implements gopar's fileIO (create-or-truncate).
func (m *Mem) WriteFile(p string, data []byte) error {
	m.mu.Lock()
	defer m.mu.Unlock()
	if m.crashed {
		return errCrashed
	}
	r := m.Resolve(p)
	f, has := m.fault('W', r)
	a := Access{Op: 'W', Path: p, Resolved: r, N: len(data), Data: append([]byte(nil), data...)}
	if has && f.Kind == WriteENOSPC {
		err := faultErr('W', p, f)
		a.Fault, a.Err = f.Kind, err.Error()
		m.record(a)
		return err
	}
	if p == "" {
		err := pathErr("open", p, syscall.ENOENT)
		a.Err = err.Error()
		m.record(a)
		return err
	}
	if m.Dirs[r] {
		err := pathErr("open", p, syscall.EISDIR)
		a.Err = err.Error()
		m.record(a)
		return err
	}
	if e := m.parentErr(r); e != 0 {
		err := pathErr("open", p, e)
		a.Err = err.Error()
		m.record(a)
		return err
	}
	if strings.HasSuffix(p, "/") {
		err := pathErr("open", p, syscall.EISDIR)
		a.Err = err.Error()
		m.record(a)
		return err
	}
	if has {
		keep := f.Keep
		if f.NthWrite > 0 {
			keep = len(data) * f.KeepPermille / 1000
		}
		if keep > len(data) {
			keep = len(data)
		}
		if keep < 0 {
			keep = 0
		}
		switch f.Kind {
		case WriteTorn, Crash:
			m.Files[r] = append([]byte(nil), data[:keep]...)
			a.Kept = keep
		case WriteTruncErr:
			m.Files[r] = []byte{}
			a.Kept = 0
		case WriteLateErr:
			m.Files[r] = a.Data
			a.Kept = len(data)
		}
		err := faultErr('W', p, f)
		a.Fault, a.Err = f.Kind, err.Error()
		m.record(a)
		if f.Kind == Crash {
			// the process is dead from here on: the disk is frozen in this
			// state and every later call of the operation - from whichever
			// goroutine - fails without effect (no panic: the write may have
			// been issued by a goroutine other than the caller's, and the
			// caller discards whatever the operation returns)
			m.crashed = true
			return errCrashed
		}
		return err
	}
	m.Files[r] = a.Data
	m.record(a)
	return nil
}

// FindWithPrefixAndSuffix implements gopar's par2 fileIO with the
// semantics of filepath.Glob(prefix+"*"+suffix) for metacharacter-free
// prefixes: the star does not cross a path separator.
func (m *Mem) FindWithPrefixAndSuffix(prefix, suffix string) ([]string, error) {
	m.mu.Lock()
	defer m.mu.Unlock()
	if m.crashed {
		return nil, errCrashed
	}
	f, has := m.fault('G', prefix+"*"+suffix)
	a := Access{Op: 'G', Path: prefix + "*" + suffix}
	if has && f.Kind == GlobEIO {
		err := pathErr("readdirent", prefix, syscall.EIO)
		if f.ErrStyle != 0 {
			err = faultErr('G', prefix, f)
		}
		a.Fault, a.Err = f.Kind, err.Error()
		m.record(a)
		return nil, err
	}
	dirSpelled, namePrefix := filepath.Split(prefix)
	dir := dirSpelled
	if dir == "" {
		dir = "."
	}
	rdir := m.Resolve(dir)
	a.Resolved = rdir
	var names []string
	for p := range m.Files {
		if filepath.Dir(p) != rdir {
			continue
		}
		name := filepath.Base(p)
		if len(name) >= len(namePrefix)+len(suffix) && strings.HasPrefix(name, namePrefix) && strings.HasSuffix(name, suffix) {
			names = append(names, name)
		}
	}
	for d := range m.Dirs {
		if d == "/" || filepath.Dir(d) != rdir {
			continue
		}
		name := filepath.Base(d)
		if len(name) >= len(namePrefix)+len(suffix) && strings.HasPrefix(name, namePrefix) && strings.HasSuffix(name, suffix) {
			names = append(names, name)
		}
	}
	sort.Strings(names)
	if m.Order != nil && len(names) > 1 {
		perm := m.Order(len(names))
		out := make([]string, len(names))
		for i, j := range perm {
			out[i] = names[j]
		}
		names = out
	}
	res := make([]string, len(names))
	for i, n := range names {
		res[i] = dirSpelled + n
	}
	a.N = len(res)
	a.Matches = res
	m.record(a)
	return res, nil
}

// SortedPaths lists all file paths in sorted order.
func (m *Mem) SortedPaths() []string {
	out := make([]string, 0, len(m.Files))
	for p := range m.Files {
		out = append(out, p)
	}
	sort.Strings(out)
	return out
}
