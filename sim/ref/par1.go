package ref

import (
	"crypto/md5"
	"encoding/binary"
	"unicode/utf16"
)

// Par1Entry is one file entry of a PAR 1.0 volume.
type Par1Entry struct {
	Offset    int // offset of the entry in the volume
	EntrySize int
	Status    uint64
	FileSize  uint64
	Hash      [16]byte
	Hash16k   [16]byte
	Name      string
	NameU16   []uint16
}

// Par1Volume is the parsed form of a PAR 1.0 file (index or parity).
type Par1Volume struct {
	OK             bool
	ControlHashOK  bool
	SetHash        [16]byte
	VolumeNumber   uint64
	FileCount      uint64
	FileListOffset uint64
	FileListBytes  uint64
	DataOffset     uint64
	DataBytes      uint64
	Entries        []Par1Entry
	Data           []byte
}

// ParsePar1 reads a PAR 1.0 volume from the specification's layout.
func ParsePar1(b []byte) Par1Volume {
	var v Par1Volume
	if len(b) < 96 || string(b[0:8]) != "PAR\x00\x00\x00\x00\x00" {
		return v
	}
	sum := md5.Sum(b[0x20:])
	v.ControlHashOK = string(sum[:]) == string(b[0x10:0x20])
	copy(v.SetHash[:], b[0x20:0x30])
	v.VolumeNumber = binary.LittleEndian.Uint64(b[0x30:])
	v.FileCount = binary.LittleEndian.Uint64(b[0x38:])
	v.FileListOffset = binary.LittleEndian.Uint64(b[0x40:])
	v.FileListBytes = binary.LittleEndian.Uint64(b[0x48:])
	v.DataOffset = binary.LittleEndian.Uint64(b[0x50:])
	v.DataBytes = binary.LittleEndian.Uint64(b[0x58:])
	o := 96
	for i := uint64(0); i < v.FileCount; i++ {
		if o+56 > len(b) {
			return v
		}
		var e Par1Entry
		e.Offset = o
		e.EntrySize = int(binary.LittleEndian.Uint64(b[o:]))
		e.Status = binary.LittleEndian.Uint64(b[o+8:])
		e.FileSize = binary.LittleEndian.Uint64(b[o+16:])
		copy(e.Hash[:], b[o+24:])
		copy(e.Hash16k[:], b[o+40:])
		if e.EntrySize < 56 || o+e.EntrySize > len(b) || (e.EntrySize-56)%2 != 0 {
			return v
		}
		nb := b[o+56 : o+e.EntrySize]
		for k := 0; k+1 < len(nb); k += 2 {
			e.NameU16 = append(e.NameU16, uint16(nb[k])|uint16(nb[k+1])<<8)
		}
		e.Name = string(utf16.Decode(e.NameU16))
		v.Entries = append(v.Entries, e)
		o += e.EntrySize
	}
	v.Data = b[o:]
	v.OK = v.ControlHashOK
	return v
}

// WritePar1 writes a PAR 1.0 volume from the specification: entries are
// (status, data, name) and the set hash is over the MD5s of entries
// with status bit 0 set.
type Par1File struct {
	Name   string
	Data   []byte
	Status uint64
}

// BuildPar1 serialises one volume (volume 0 = index with comment as
// payload; volume v>0 with parity payload).
func BuildPar1(files []Par1File, volume uint64, payload []byte) []byte {
	var entries []byte
	var setIn []byte
	for _, f := range files {
		u := utf16.Encode([]rune(f.Name))
		e := make([]byte, 56+2*len(u))
		binary.LittleEndian.PutUint64(e[0:], uint64(len(e)))
		binary.LittleEndian.PutUint64(e[8:], f.Status)
		binary.LittleEndian.PutUint64(e[16:], uint64(len(f.Data)))
		h := md5.Sum(f.Data)
		copy(e[24:], h[:])
		h16 := hash16k(f.Data)
		copy(e[40:], h16[:])
		for i, c := range u {
			e[56+2*i] = byte(c)
			e[56+2*i+1] = byte(c >> 8)
		}
		entries = append(entries, e...)
		if f.Status&1 != 0 {
			setIn = append(setIn, h[:]...)
		}
	}
	out := make([]byte, 96)
	copy(out[0:8], "PAR\x00\x00\x00\x00\x00")
	binary.LittleEndian.PutUint64(out[8:], 0x00010000)
	setHash := md5.Sum(setIn)
	copy(out[0x20:], setHash[:])
	binary.LittleEndian.PutUint64(out[0x30:], volume)
	binary.LittleEndian.PutUint64(out[0x38:], uint64(len(files)))
	binary.LittleEndian.PutUint64(out[0x40:], 0x60)
	binary.LittleEndian.PutUint64(out[0x48:], uint64(len(entries)))
	binary.LittleEndian.PutUint64(out[0x50:], uint64(0x60+len(entries)))
	binary.LittleEndian.PutUint64(out[0x58:], uint64(len(payload)))
	out = append(out, entries...)
	out = append(out, payload...)
	ch := md5.Sum(out[0x20:])
	copy(out[0x10:], ch[:])
	return out
}

// Par1Parity computes parity volume v (1-based) over the files in
// order (numbered from 1), zero-padded to the longest: sum of
// i^(v-1) * file_i in GF(2^8) mod 0x11D.
func Par1Parity(files [][]byte, v int) []byte {
	max := 0
	for _, f := range files {
		if len(f) > max {
			max = len(f)
		}
	}
	out := make([]byte, max)
	for i, f := range files {
		c := Pow8(byte(i+1), v-1)
		for k, b := range f {
			out[k] ^= Mul8(c, b)
		}
	}
	return out
}
