package ref

import "bytes"

// SliceRef identifies a protected slice: file index (in the caller's
// order) and slice index within that file.
type SliceRef struct{ File, Index int }

// Protected describes the protected content of one file.
type Protected struct {
	Name string // name as protected (relative to the index directory)
	Data []byte
}

// Slices cuts the protected files into zero-padded slices of size s.
func Slices(files []Protected, s int) (slices [][]byte, refs []SliceRef) {
	for fi, f := range files {
		for o, k := 0, 0; o < len(f.Data); o, k = o+s, k+1 {
			end := o + s
			var sl []byte
			if end <= len(f.Data) {
				sl = f.Data[o:end]
			} else {
				sl = make([]byte, s)
				copy(sl, f.Data[o:])
			}
			slices = append(slices, sl)
			refs = append(refs, SliceRef{fi, k})
		}
	}
	return
}

const rkBase = 1000003

func rkHash(b []byte) uint64 {
	var h uint64
	for _, c := range b {
		h = h*rkBase + uint64(c) + 1
	}
	return h
}

// Occurrence is a place where a protected slice's padded content
// appears in a surviving file.
type Occurrence struct {
	File   int // index of the surviving file in the `present` list
	Offset int
	Slice  int // one global slice index with that content (representative)
}

// ScanResult is the truth the oracles compare gopar's counts with.
type ScanResult struct {
	N     int    // protected slices
	Found []bool // slice content occurs somewhere in a surviving file
	Clean []bool // slice has a clean occurrence or lies in an intact file
	Upper int    // count of Found
	Lower int    // count of Clean
	Occ   int    // total occurrences seen
}

// Scan finds, for every protected slice, whether its padded content
// occurs in any of the surviving files (present[i] == nil means the
// file is missing; present is indexed like files). A window starting
// at offset o < len(file) is zero-padded past end of file.
func Scan(files []Protected, s int, present [][]byte) ScanResult {
	slices, refs := Slices(files, s)
	n := len(slices)
	res := ScanResult{N: n, Found: make([]bool, n), Clean: make([]bool, n)}
	// group slices by content
	byHash := map[uint64][]int{} // hash -> representative slice indices (distinct contents)
	groups := map[int][]int{}    // representative -> all slices with equal content
	for i, sl := range slices {
		h := rkHash(sl)
		placed := false
		for _, rep := range byHash[h] {
			if bytes.Equal(slices[rep], sl) {
				groups[rep] = append(groups[rep], i)
				placed = true
				break
			}
		}
		if !placed {
			byHash[h] = append(byHash[h], i)
			groups[i] = []int{i}
		}
	}
	// base^s for the rolling hash
	var pow uint64 = 1
	for i := 0; i < s; i++ {
		pow *= rkBase
	}
	for fi, data := range present {
		if data == nil || len(data) == 0 {
			continue
		}
		intact := fi < len(files) && bytes.Equal(data, files[fi].Data)
		// virtual buffer: data followed by s-1 zeros
		at := func(i int) byte {
			if i < len(data) {
				return data[i]
			}
			return 0
		}
		var h uint64
		for i := 0; i < s; i++ {
			h = h*rkBase + uint64(at(i)) + 1
		}
		var occOffsets []int
		var occReps []int
		win := make([]byte, s)
		for o := 0; o < len(data); o++ {
			if o > 0 {
				h = h*rkBase + uint64(at(o+s-1)) + 1 - pow*(uint64(at(o-1))+1)
			}
			if reps, ok := byHash[h]; ok {
				// confirm bytewise
				end := o + s
				var w []byte
				if end <= len(data) {
					w = data[o:end]
				} else {
					for i := range win {
						win[i] = 0
					}
					copy(win, data[o:])
					w = win
				}
				for _, rep := range reps {
					if bytes.Equal(slices[rep], w) {
						occOffsets = append(occOffsets, o)
						occReps = append(occReps, rep)
						break
					}
				}
			}
		}
		res.Occ += len(occOffsets)
		for k, o := range occOffsets {
			for _, i := range groups[occReps[k]] {
				res.Found[i] = true
			}
			// clean: no other occurrence starts in the open interval (o-s, o)
			clean := true
			for j := k - 1; j >= 0 && occOffsets[j] > o-s; j-- {
				if occOffsets[j] < o {
					clean = false
					break
				}
			}
			if clean {
				for _, i := range groups[occReps[k]] {
					res.Clean[i] = true
				}
			}
		}
		if intact {
			for i, r := range refs {
				if r.File == fi {
					res.Found[i] = true
					res.Clean[i] = true
				}
			}
		}
	}
	for i := 0; i < n; i++ {
		if res.Found[i] {
			res.Upper++
		}
		if res.Clean[i] {
			res.Lower++
		}
	}
	return res
}
