package ref

import (
	"bytes"
	"crypto/md5"
	"encoding/binary"
	"hash/crc32"
	"sort"
	"strings"
)

// PAR 2.0 packet constants, from the specification.
var (
	Par2Magic    = []byte{'P', 'A', 'R', '2', 0, 'P', 'K', 'T'}
	TypeMain     = typ("PAR 2.0\x00Main")
	TypeFileDesc = typ("PAR 2.0\x00FileDesc")
	TypeIFSC     = typ("PAR 2.0\x00IFSC")
	TypeRecvSlic = typ("PAR 2.0\x00RecvSlic")
	TypeCreator  = typ("PAR 2.0\x00Creator")
)

// TypeOf returns the 16-byte packet type for a type string.
func TypeOf(s string) [16]byte { return typ(s) }

func typ(s string) [16]byte {
	var t [16]byte
	copy(t[:], s)
	return t
}

// Packet is one well-formed packet found in a byte stream.
type Packet struct {
	Offset int // offset of the packet header in the stream
	Length int // total length including the 64-byte header
	SetID  [16]byte
	Type   [16]byte
	Body   []byte
}

// ParsePackets finds every intact packet in b: it looks for the magic
// at every offset, validates length and MD5, and resynchronises on the
// next magic after anything that does not validate. trailing reports
// whether bytes that belong to no intact packet were seen.
func ParsePackets(b []byte) (pkts []Packet, damaged bool) {
	o := 0
	for o < len(b) {
		if o+64 <= len(b) && bytes.Equal(b[o:o+8], Par2Magic) {
			l := binary.LittleEndian.Uint64(b[o+8 : o+16])
			if l >= 64 && l%4 == 0 && l <= uint64(len(b)-o) {
				sum := md5.Sum(b[o+32 : o+int(l)])
				if bytes.Equal(sum[:], b[o+16:o+32]) {
					p := Packet{Offset: o, Length: int(l)}
					copy(p.SetID[:], b[o+32:o+48])
					copy(p.Type[:], b[o+48:o+64])
					p.Body = b[o+64 : o+int(l)]
					pkts = append(pkts, p)
					o += int(l)
					continue
				}
			}
		}
		damaged = true
		o++
	}
	return
}

// RecoveryExponent returns the exponent of a RecvSlic packet.
func RecoveryExponent(p Packet) (uint32, bool) {
	if p.Type != TypeRecvSlic || len(p.Body) < 4 {
		return 0, false
	}
	return binary.LittleEndian.Uint32(p.Body), true
}

// FileInfo is what a PAR2 writer needs to know about one input file.
type FileInfo struct {
	Name string
	Data []byte
	ID   [16]byte
}

// FileID computes the PAR2 file id: MD5(16k-hash, length, name).
func FileID(name string, data []byte) [16]byte {
	// the specification hashes the name as a NUL-terminated string
	if i := strings.IndexByte(name, 0); i >= 0 {
		name = name[:i]
	}
	h16 := hash16k(data)
	var in []byte
	in = append(in, h16[:]...)
	var l [8]byte
	binary.LittleEndian.PutUint64(l[:], uint64(len(data)))
	in = append(in, l[:]...)
	in = append(in, name...)
	return md5.Sum(in)
}

func hash16k(data []byte) [16]byte {
	if len(data) > 16384 {
		return md5.Sum(data[:16384])
	}
	return md5.Sum(data)
}

// idLess orders file ids as 128-bit little-endian unsigned integers.
func idLess(a, b [16]byte) bool {
	for i := 15; i >= 0; i-- {
		if a[i] != b[i] {
			return a[i] < b[i]
		}
	}
	return false
}

// SortByFileID returns the files in recovery-set order.
func SortByFileID(files []Protected) []FileInfo {
	out := make([]FileInfo, len(files))
	for i, f := range files {
		out[i] = FileInfo{Name: f.Name, Data: f.Data, ID: FileID(f.Name, f.Data)}
	}
	sort.SliceStable(out, func(i, j int) bool { return idLess(out[i].ID, out[j].ID) })
	return out
}

// RecoverySetOrder returns, for files given in the caller's order, the
// permutation into recovery-set order: order[k] = index into files of
// the k-th file of the recovery set.
func RecoverySetOrder(files []Protected) []int {
	ids := make([][16]byte, len(files))
	order := make([]int, len(files))
	for i, f := range files {
		ids[i] = FileID(f.Name, f.Data)
		order[i] = i
	}
	sort.SliceStable(order, func(a, b int) bool { return idLess(ids[order[a]], ids[order[b]]) })
	return order
}

func pad4(b []byte) []byte {
	for len(b)%4 != 0 {
		b = append(b, 0)
	}
	return b
}

// MakePacket frames a body.
func MakePacket(setID [16]byte, t [16]byte, body []byte) []byte {
	body = pad4(append([]byte(nil), body...))
	out := make([]byte, 64+len(body))
	copy(out[0:8], Par2Magic)
	binary.LittleEndian.PutUint64(out[8:16], uint64(len(out)))
	copy(out[32:48], setID[:])
	copy(out[48:64], t[:])
	copy(out[64:], body)
	sum := md5.Sum(out[32:])
	copy(out[16:32], sum[:])
	return out
}

// Set is a reference-written PAR2 recovery set, as loose packets.
type Set struct {
	SetID     [16]byte
	SliceSize int
	Files     []FileInfo // recovery-set order
	Main      []byte
	Creator   []byte
	FileDesc  [][]byte // per file, recovery-set order
	IFSC      [][]byte
	Recovery  map[int][]byte // exponent -> packet
	Slices    [][]byte       // padded input slices in recovery-set order
}

// BuildSet writes the packets of a recovery set for the given files,
// slice size and recovery exponents, from the specification.
func BuildSet(files []Protected, sliceSize int, exponents []int, creator string, nonRecovery ...Protected) *Set {
	s := &Set{SliceSize: sliceSize, Recovery: map[int][]byte{}}
	s.Files = SortByFileID(files)
	// files of the non-recovery set: listed in the main packet after the
	// recovery set and described by the same two packets, but not part
	// of the Reed-Solomon computation
	nonRec := SortByFileID(nonRecovery)
	// main packet body
	var main []byte
	var u8 [8]byte
	binary.LittleEndian.PutUint64(u8[:], uint64(sliceSize))
	main = append(main, u8[:]...)
	var u4 [4]byte
	binary.LittleEndian.PutUint32(u4[:], uint32(len(s.Files)))
	main = append(main, u4[:]...)
	for _, f := range s.Files {
		main = append(main, f.ID[:]...)
	}
	for _, f := range nonRec {
		main = append(main, f.ID[:]...)
	}
	s.SetID = md5.Sum(main)
	s.Main = MakePacket(s.SetID, TypeMain, main)
	s.Creator = MakePacket(s.SetID, TypeCreator, []byte(creator))
	for fi, f := range append(append([]FileInfo(nil), s.Files...), nonRec...) {
		var fd []byte
		fd = append(fd, f.ID[:]...)
		full := md5.Sum(f.Data)
		fd = append(fd, full[:]...)
		h16 := hash16k(f.Data)
		fd = append(fd, h16[:]...)
		binary.LittleEndian.PutUint64(u8[:], uint64(len(f.Data)))
		fd = append(fd, u8[:]...)
		fd = append(fd, f.Name...)
		s.FileDesc = append(s.FileDesc, MakePacket(s.SetID, TypeFileDesc, fd))
		var ifsc []byte
		ifsc = append(ifsc, f.ID[:]...)
		for o := 0; o < len(f.Data); o += sliceSize {
			sl := make([]byte, sliceSize)
			copy(sl, f.Data[o:])
			if fi < len(s.Files) {
				s.Slices = append(s.Slices, sl)
			}
			m := md5.Sum(sl)
			ifsc = append(ifsc, m[:]...)
			binary.LittleEndian.PutUint32(u4[:], crc32.ChecksumIEEE(sl))
			ifsc = append(ifsc, u4[:]...)
		}
		s.IFSC = append(s.IFSC, MakePacket(s.SetID, TypeIFSC, ifsc))
	}
	for _, e := range exponents {
		blk := RecoveryBlock(s.Slices, e)
		binary.LittleEndian.PutUint32(u4[:], uint32(e))
		body := append(append([]byte(nil), u4[:]...), blk...)
		s.Recovery[e] = MakePacket(s.SetID, TypeRecvSlic, body)
	}
	return s
}

// CriticalPackets returns main + per-file description and checksum
// packets (no creator, no recovery).
func (s *Set) CriticalPackets() [][]byte {
	out := [][]byte{s.Main}
	for i := range s.FileDesc {
		out = append(out, s.FileDesc[i], s.IFSC[i])
	}
	return out
}

// IndexInfo is what the reference reader extracts from an index file.
type IndexInfo struct {
	SetID     [16]byte
	SliceSize int
	FileIDs   [][16]byte
	Names     map[[16]byte]string
	Lengths   map[[16]byte]int
	OK        bool
}

// ReadIndex extracts set id, slice size and the recovery set's file
// names from the packets of an index file. The set id is that of the
// first intact packet.
func ReadIndex(b []byte) IndexInfo {
	info := IndexInfo{Names: map[[16]byte]string{}, Lengths: map[[16]byte]int{}}
	pkts, _ := ParsePackets(b)
	if len(pkts) == 0 {
		return info
	}
	info.SetID = pkts[0].SetID
	for _, p := range pkts {
		if p.SetID != info.SetID {
			continue
		}
		switch p.Type {
		case TypeMain:
			if len(p.Body) < 12 {
				continue
			}
			info.SliceSize = int(binary.LittleEndian.Uint64(p.Body))
			n := int(binary.LittleEndian.Uint32(p.Body[8:]))
			for i := 0; i < n && 12+16*(i+1) <= len(p.Body); i++ {
				var id [16]byte
				copy(id[:], p.Body[12+16*i:])
				info.FileIDs = append(info.FileIDs, id)
			}
			info.OK = true
		case TypeFileDesc:
			if len(p.Body) < 56 {
				continue
			}
			var id [16]byte
			copy(id[:], p.Body)
			name := p.Body[56:]
			if i := bytes.IndexByte(name, 0); i >= 0 {
				name = name[:i]
			}
			info.Names[id] = string(name)
			info.Lengths[id] = int(binary.LittleEndian.Uint64(p.Body[48:]))
		}
	}
	return info
}

// IntactRecoveryExponents returns the distinct exponents of intact
// recovery packets of the given set in a file's bytes, and whether the
// file contained bytes outside intact packets.
func IntactRecoveryExponents(b []byte, setID [16]byte) (exps []int, damaged bool) {
	pkts, dmg := ParsePackets(b)
	seen := map[int]bool{}
	for _, p := range pkts {
		if p.SetID != setID {
			continue
		}
		if e, ok := RecoveryExponent(p); ok && !seen[int(e)] {
			seen[int(e)] = true
			exps = append(exps, int(e))
		}
	}
	sort.Ints(exps)
	return exps, dmg
}
