// Package ref is the reference-model side of the simulator: everything
// here is written from the PAR 1.0 / PAR 2.0 specifications and plain
// arithmetic, and shares no code with gopar.
package ref

// ---- GF(2^16) modulo x^16+x^12+x^3+x+1 (0x1100B), shift-and-xor ----

// Mul16 multiplies in GF(2^16) by shift-and-xor (no tables).
func Mul16(a, b uint16) uint16 {
	var r uint32
	x := uint32(a)
	y := uint32(b)
	for y != 0 {
		if y&1 != 0 {
			r ^= x
		}
		y >>= 1
		x <<= 1
		if x&0x10000 != 0 {
			x ^= 0x1100B
		}
	}
	return uint16(r)
}

// Pow16 is a^e by square and multiply (0^0 = 1).
func Pow16(a uint16, e uint32) uint16 {
	r := uint16(1)
	for e != 0 {
		if e&1 != 0 {
			r = Mul16(r, a)
		}
		a = Mul16(a, a)
		e >>= 1
	}
	return r
}

// Inv16 is the multiplicative inverse (a != 0): a^(2^16-2).
func Inv16(a uint16) uint16 { return Pow16(a, 65534) }

var exp16 [65535 * 2]uint16
var log16 [65536]int
var tablesBuilt bool

func buildTables16() {
	if tablesBuilt {
		return
	}
	x := uint16(1)
	for i := 0; i < 65535; i++ {
		exp16[i] = x
		exp16[i+65535] = x
		log16[x] = i
		x = Mul16(x, 2)
	}
	tablesBuilt = true
}

// FastMul16 multiplies using log/exp tables built from Mul16 with
// generator 2 (2 is primitive for 0x1100B).
func FastMul16(a, b uint16) uint16 {
	if a == 0 || b == 0 {
		return 0
	}
	return exp16[log16[a]+log16[b]]
}

// Par2Constant returns the i-th PAR2 column constant: 2^n for the i-th
// n >= 1 not divisible by 3, 5, 17 or 257.
func Par2Constant(i int) uint16 {
	buildTables16()
	return exp16[par2Exponents(i + 1)[i]]
}

var par2Exps []int

func par2Exponents(count int) []int {
	n := 1
	if len(par2Exps) > 0 {
		n = par2Exps[len(par2Exps)-1] + 1
	}
	for ; len(par2Exps) < count; n++ {
		if n%3 == 0 || n%5 == 0 || n%17 == 0 || n%257 == 0 {
			continue
		}
		par2Exps = append(par2Exps, n)
	}
	return par2Exps
}

// Par2Singular reports whether the matrix with rows = the given
// exponents and columns = the given global slice indices,
// entries c_j^e, is singular over GF(2^16).
func Par2Singular(exponents []int, sliceIdx []int) bool {
	buildTables16()
	n := len(exponents)
	if n != len(sliceIdx) {
		panic("ref: non-square")
	}
	m := make([][]uint16, n)
	for r := 0; r < n; r++ {
		m[r] = make([]uint16, n)
		for c := 0; c < n; c++ {
			m[r][c] = Pow16(Par2Constant(sliceIdx[c]), uint32(exponents[r]))
		}
	}
	for col := 0; col < n; col++ {
		p := -1
		for r := col; r < n; r++ {
			if m[r][col] != 0 {
				p = r
				break
			}
		}
		if p < 0 {
			return true
		}
		m[col], m[p] = m[p], m[col]
		inv := Inv16(m[col][col])
		for r := col + 1; r < n; r++ {
			if m[r][col] == 0 {
				continue
			}
			f := FastMul16(m[r][col], inv)
			for c := col; c < n; c++ {
				m[r][c] ^= FastMul16(f, m[col][c])
			}
		}
	}
	return false
}

// RecoveryBlock computes PAR2 recovery block e for the given padded
// slices (each of even length, all equal) on little-endian 16-bit words.
func RecoveryBlock(slices [][]byte, e int) []byte {
	buildTables16()
	if len(slices) == 0 {
		return nil
	}
	out := make([]byte, len(slices[0]))
	for i, s := range slices {
		c := Pow16(Par2Constant(i), uint32(e))
		if c == 0 {
			continue
		}
		lc := log16[c]
		for w := 0; w+1 < len(s); w += 2 {
			v := uint16(s[w]) | uint16(s[w+1])<<8
			if v == 0 {
				continue
			}
			p := exp16[lc+log16[v]]
			out[w] ^= byte(p)
			out[w+1] ^= byte(p >> 8)
		}
	}
	return out
}

// ---- GF(2^8) modulo 0x11D (PAR1) ----

// Mul8 multiplies in GF(2^8) mod x^8+x^4+x^3+x^2+1.
func Mul8(a, b byte) byte {
	var r uint16
	x := uint16(a)
	y := uint16(b)
	for y != 0 {
		if y&1 != 0 {
			r ^= x
		}
		y >>= 1
		x <<= 1
		if x&0x100 != 0 {
			x ^= 0x11D
		}
	}
	return byte(r)
}

// Pow8 is a^e (0^0 = 1).
func Pow8(a byte, e int) byte {
	r := byte(1)
	for i := 0; i < e; i++ {
		r = Mul8(r, a)
	}
	return r
}

// Inv8 is the inverse of a != 0.
func Inv8(a byte) byte { return Pow8(a, 254) }

// Par1Singular reports whether the PAR1 sub-matrix with rows = parity
// volume numbers (1-based) and columns = file numbers (1-based),
// entries file^(volume-1), is singular over GF(2^8).
func Par1Singular(volumes []int, files []int) bool {
	n := len(volumes)
	if n != len(files) {
		panic("ref: non-square")
	}
	m := make([][]byte, n)
	for r := 0; r < n; r++ {
		m[r] = make([]byte, n)
		for c := 0; c < n; c++ {
			m[r][c] = Pow8(byte(files[c]), volumes[r]-1)
		}
	}
	for col := 0; col < n; col++ {
		p := -1
		for r := col; r < n; r++ {
			if m[r][col] != 0 {
				p = r
				break
			}
		}
		if p < 0 {
			return true
		}
		m[col], m[p] = m[p], m[col]
		inv := Inv8(m[col][col])
		for r := col + 1; r < n; r++ {
			if m[r][col] == 0 {
				continue
			}
			f := Mul8(m[r][col], inv)
			for c := col; c < n; c++ {
				m[r][c] ^= Mul8(f, m[col][c])
			}
		}
	}
	return false
}

// Par2ConstantLog returns n such that the i-th PAR2 constant is 2^n.
func Par2ConstantLog(i int) int { return par2Exponents(i + 1)[i] }

// Exp2 returns 2^n in GF(2^16) (n >= 0).
func Exp2(n int) uint16 {
	buildTables16()
	return exp16[n%65535]
}

// ZeroMinorTriples searches column triples (a<b<c) below n whose 3x3
// matrix with rows = the given three exponents (entries c_col^e) has
// determinant zero. In characteristic 2 the determinant is the plain
// sum of the six permutation products.
func ZeroMinorTriples(e [3]int, n int, limit int) [][3]int {
	buildTables16()
	logs := make([]int, n)
	for i := range logs {
		logs[i] = Par2ConstantLog(i) % 65535
	}
	var out [][3]int
	for a := 0; a < n; a++ {
		for b := a + 1; b < n; b++ {
			for c := b + 1; c < n; c++ {
				la, lb, lc := logs[a], logs[b], logs[c]
				d := exp16[(la*e[0]+lb*e[1]+lc*e[2])%65535] ^ exp16[(la*e[0]+lc*e[1]+lb*e[2])%65535] ^
					exp16[(lb*e[0]+la*e[1]+lc*e[2])%65535] ^ exp16[(lb*e[0]+lc*e[1]+la*e[2])%65535] ^
					exp16[(lc*e[0]+la*e[1]+lb*e[2])%65535] ^ exp16[(lc*e[0]+lb*e[1]+la*e[2])%65535]
				if d == 0 {
					out = append(out, [3]int{a, b, c})
					if len(out) >= limit {
						return out
					}
				}
			}
		}
	}
	return out
}
