package engine

import (
	"fmt"
	"hash/fnv"
	"path/filepath"
	"sort"

	"verifsim/simdisk"
)

func init() {
	Register(&Profile{Name: "histories", Prop: "C14", Weight: 10, Quick: 60000, Thorough: 1200000, Fn: histories})
	SetMeta("C14", &Meta{
		Level: "exploration",
		Rule:  "seeded random walks of up to 12 (thorough: 20) steps over {damage file f in way w, restore file f, delete / restore recovery file v, Verify, Repair, Repair with double-check} on small fixed worlds (PAR1 and PAR2, 2-4 files) and on random small worlds; the disk is the only state carried between steps. A walk is non-trivial when it contains at least one Repair executed in a damaged state; distinct by the sequence of (operation kind, abstract state class). coverage.states / transitions count distinct abstract states (world id, per-file content hash or 'missing', set of recovery files present) and distinct (state, operation, next state) triples reached over the whole batch: this is sampling of the reachable state graph, not its closure.",
		Assumptions: []string{
			"damage never removes directories and never touches the index file in this profile (a damaged index makes every operation fail, which is C13's territory)",
			"recovery files are deleted or restored whole ('a recovery file arrives'); damaged recovery files belong to C13",
		},
		ProbesWant: []string{"repair-after-repair", "damage-after-repair", "repair-failed-then-recovery-restored-then-repaired", "second-repair-checked", "failed-repair-checked", "par1-walk", "par2-walk", "repair-crashed-mid-write", "stale-recovery-arrives"},
	})
}

func hashBytes(b []byte) uint64 {
	h := fnv.New64a()
	h.Write(b)
	return h.Sum64()
}

// abstractState hashes (world id, per-file content class, recovery
// inventory).
func (w *World) abstractState(worldID int) uint64 {
	h := fnv.New64a()
	fmt.Fprintf(h, "w%d|", worldID)
	for i := range w.Files {
		d, ok := w.Disk.Get(w.Path(i))
		switch {
		case !ok:
			fmt.Fprint(h, "missing|")
		case string(d) == string(w.Files[i].Data):
			fmt.Fprint(h, "intact|")
		default:
			fmt.Fprintf(h, "%016x|", hashBytes(d))
		}
	}
	var rec []string
	for p := range w.Created {
		if p == w.Index {
			continue
		}
		if _, ok := w.Disk.Get(p); ok {
			rec = append(rec, p)
		}
	}
	sort.Strings(rec)
	fmt.Fprint(h, rec)
	return h.Sum64()
}

func histories(r *Run) {
	t := r.T
	var w *World
	worldID := -1
	if t.Bool(1, 2, "random-world") {
		par1Set := t.Bool(1, 3, "par1")
		w = GenWorld(r, GenOpts{Par1: par1Set, MaxFiles: 4, SmallOnly: true, MaxR: 4})
		if t.Bool(1, 6, "file-at-16k") && (par1Set || w.S >= 16) {
			// one file right at the 16 KiB boundary of the file hashes
			size := 16383 + t.Draw(3, "k16-d")
			if t.Bool(1, 2, "beyond-16k") {
				// ... or reaching a little beyond it
				size = 16384 + 9 + t.Draw(300, "k16-beyond")
			}
			data := expandContent(ckRandom, t.Draw64(0, "k16-seed"), size, 4)
			if !par1Set {
				w.N += (len(data)+w.S-1)/w.S - (len(w.Files[0].Data)+w.S-1)/w.S
			}
			w.Files[0].Data = data
			w.Disk.Put(w.Path(0), data)
			r.Probe("file-at-16KiB")
		}
	} else {
		c13Once.Do(c13Build)
		worldID = t.Draw(len(c13Sets), "fixed-world")
		w = worldFromFixed(r, c13Sets[worldID])
		r.Logf("fixed world %d par1=%v", worldID, w.Par1)
	}
	if w.Par1 {
		r.Probe("par1-walk")
	} else {
		r.Probe("par2-walk")
	}
	if w.Par1 && worldID < 0 && t.Bool(1, 10, "as-many-volumes-as-possible") {
		// the highest volume count the format's numbering allows
		w.R = 99
		if 256-len(w.Files) < w.R {
			w.R = 256 - len(w.Files)
		}
		r.Probe("par1-maximal-volume-count")
	}
	var cre *OpResult
	if w.Par1 {
		cre = r.Create1(w, w.Index, w.FilePaths(), nil)
	} else {
		cre = r.Create2(w, w.FilePaths(), nil, SchedSpec{})
	}
	r.noPanic(cre)
	if cre.Err != nil {
		r.Violate("create-failed", "Create failed on a valid set: %v", cre.Err)
	}
	w.RecordCreated(r, cre)
	_ = 0
	if w.Par1 && worldID < 0 && t.Bool(1, 6, "foreign-writer") {
		w.RewriteAsForeignPar1(r)
	}
	if !w.Par1 && worldID < 0 && t.Bool(1, 8, "foreign-writer-par2") {
		w.RewriteAsForeignPar2(r)
	}

	maxSteps := 12
	if r.Thorough() {
		maxSteps = 20
	}
	steps := 2 + t.Draw(maxSteps-1, "steps")
	var classSeq []string
	lastRepairOK := false
	failedRepairSeen := false
	recoveryRestoredAfterFail := false
	sawDamagedRepair := false
	staleArrived := false
	state := w.abstractState(worldID)
	if worldID >= 0 {
		r.States = append(r.States, state)
	}
	for s := 0; s < steps; s++ {
		t.Begin("step")
		op := t.Pick([]int{5, 2, 2, 2, 2, 4, 2, 1, 1, 1, 1}, "op")
		name := ""
		switch op {
		case 0:
			name = "damage"
			w.DamageData(r, []string{"delete", "flip", "truncate", "prepend", "swap", "append-zeros", "overwrite", "remove-bytes", "empty", "copy-over", "append-garbage", "insert", "forge-crc"})
			if lastRepairOK {
				r.Probe("damage-after-repair")
			}
			lastRepairOK = false
		case 1:
			name = "restore"
			w.RestoreData(r)
		case 2:
			name = "delete-recovery"
			rec := w.RecoveryPaths()
			if len(rec) > 1 && t.Bool(1, 5, "all-but-one") {
				// every recovery file but one is lost (the first, the last - the
				// highest-numbered one - or any other)
				sort.Strings(rec)
				keep := []int{0, len(rec) - 1, t.Draw(len(rec), "keep-any")}[t.Draw(3, "keep")]
				for i, p := range rec {
					if i != keep {
						w.Disk.Remove(p)
					}
				}
				r.Logf("all recovery files lost except %s", filepath.Base(rec[keep]))
				r.Count("damage:delete-recovery-file")
				r.Probe("all-but-one-recovery-file-lost")
			} else if len(rec) > 0 {
				p := rec[t.Draw(len(rec), "which")]
				w.Disk.Remove(p)
				r.Logf("recovery file %s lost", p)
				r.Count("damage:delete-recovery-file")
			}
		case 3:
			name = "restore-recovery"
			rec := w.RecoveryPaths()
			if len(rec) > 0 {
				p := rec[t.Draw(len(rec), "which")]
				w.Disk.Put(p, w.Created[p])
				r.Logf("recovery file %s arrives", p)
				if failedRepairSeen {
					recoveryRestoredAfterFail = true
				}
			}
		case 7:
			// an outdated or wrongly produced recovery file of the same
			// set turns up beside the index (valid by the format's checks)
			name = "stale-recovery-arrives"
			staleArrived = true
			if w.Par1 {
				w.hostilePar1Kind(r, "forged-volume")
			} else if t.Bool(1, 2, "forged") {
				w.hostileRecoveryKind(r, "forged-recovery-block")
			} else {
				w.hostileRecoveryKind(r, "stale-same-setid")
			}
			r.Probe("stale-recovery-arrives")
		case 9:
			// a write of this Repair fails (disk full, torn write): the
			// ordinary failed-Repair oracle applies, in particular a Repair
			// that nevertheless reports success must have restored everything
			name = "repair-write-fault"
			kind := []simdisk.Kind{simdisk.WriteENOSPC, simdisk.WriteTorn, simdisk.WriteTruncErr}[t.Draw(3, "fault-kind")]
			plan := []simdisk.Fault{{NthWrite: 1 + t.Draw(3, "fault-write"), Kind: kind, KeepPermille: t.Draw(1001, "keep")}}
			before := w.Disk.Snapshot()
			var rep *OpResult
			if w.Par1 {
				rep = r.Repair1(w, w.Index, false, plan)
			} else {
				rep = r.Repair2(w, w.Index, 1+t.Draw(4, "g"), false, plan, SchedSpec{})
			}
			r.noPanic(rep)
			fired := false
			for _, a := range rep.Log {
				if a.Fault != simdisk.None {
					fired = true
				}
			}
			if fired {
				r.Probe("repair-write-fault-fired")
				if rep.Err == nil {
					r.Violate("success-not-restored", "Repair returned success although its write of %s failed", rep.Log[len(rep.Log)-1].Resolved)
				}
			} else if rep.Err == nil && !w.AllIntact() {
				r.Violate("success-not-restored", "Repair returned success but %s", w.FirstDamaged())
			}
			for p, prev := range before {
				if w.isProtectedPath(p) {
					continue
				}
				if cur, ok := w.Disk.Get(p); !ok || string(cur) != string(prev) {
					r.Violate("failed-repair-worsened", "a Repair with a failing write changed %s", p)
				}
			}
			lastRepairOK = false
		case 8:
			// the process is killed in the middle of a Repair: the write in
			// progress is torn, nothing after it happens, no result is seen
			name = "repair-crashes"
			before := w.Disk.Snapshot()
			plan := []simdisk.Fault{{NthWrite: 1 + t.Draw(3, "crash-write"), Kind: simdisk.Crash, KeepPermille: t.Draw(1001, "keep")}}
			var rep *OpResult
			if w.Par1 {
				rep = r.Repair1(w, w.Index, false, plan)
			} else {
				rep = r.Repair2(w, w.Index, 1+t.Draw(4, "g"), false, plan, SchedSpec{})
			}
			r.noPanic(rep)
			if rep.Crashed {
				r.Probe("repair-crashed-mid-write")
				r.Count("fault:crash")
			}
			// whatever happened, every protected file holds its previous
			// content, its original, or a prefix of its original (the torn
			// write); nothing else changed
			for i := range w.Files {
				p := w.Path(i)
				cur, ok := w.Disk.Get(p)
				prev, pok := before[p]
				same := ok == pok && string(cur) == string(prev)
				orig := w.Files[i].Data
				prefix := ok && len(cur) <= len(orig) && string(cur) == string(orig[:len(cur)])
				if !same && !prefix {
					r.Violate("failed-repair-worsened", "after a Repair killed mid-write %q holds neither its previous content nor a prefix of its original", w.Files[i].Name)
				}
			}
			for p, prev := range before {
				if w.isProtectedPath(p) {
					continue
				}
				if cur, ok := w.Disk.Get(p); !ok || string(cur) != string(prev) {
					r.Violate("failed-repair-worsened", "a Repair killed mid-write changed %s", p)
				}
			}
			lastRepairOK = false
		case 10:
			// the user updates a file of a healthy set in place and runs
			// Create again over the existing archive files: from now on the
			// new content is what the set protects
			name = "reprotect"
			if !w.AllIntact() || staleArrived {
				r.Count("reprotect-skipped")
				break
			}
			var cand []int
			for i, f := range w.Files {
				if len(f.Data) > 0 {
					cand = append(cand, i)
				}
			}
			if len(cand) == 0 {
				break
			}
			i := cand[t.Draw(len(cand), "which")]
			d := append([]byte(nil), w.Files[i].Data...)
			g := prng{s: t.Draw64(0, "update-seed")}
			lo := 0
			if len(d) > 16384+8 && t.Bool(2, 3, "beyond-16k") {
				// same name, length and first 16 KiB: same file id and set id
				lo = 16384
				r.Probe("reprotect-same-setid")
			}
			for k := 0; k < 1+int(g.next()%8); k++ {
				d[lo+int(g.next()%uint64(len(d)-lo))] ^= byte(1 + g.next()%255)
			}
			w.Files[i].Data = d
			w.Disk.Put(w.Path(i), d)
			old := w.Created
			var cre2 *OpResult
			if w.Par1 {
				cre2 = r.Create1(w, w.Index, w.FilePaths(), nil)
			} else {
				cre2 = r.Create2(w, w.FilePaths(), nil, SchedSpec{})
			}
			r.noPanic(cre2)
			if cre2.Err != nil {
				r.Violate("create-failed", "Create over an existing set failed: %v", cre2.Err)
			}
			w.RecordRecreated(r, cre2, old)
			r.Probe("reprotected")
			// nothing is damaged: the freshly protected set verifies clean
			var v *OpResult
			if w.Par1 {
				v = r.Verify1(w, w.Index, true, nil)
			} else {
				v = r.Verify2(w, w.Index, 1, nil, SchedSpec{})
			}
			r.noPanic(v)
			needs := false
			if v.HasRes {
				if w.Par1 {
					needs = v.Counts1.RepairNeeded() || !v.AllData
				} else {
					needs = v.Counts.RepairNeeded()
				}
			}
			if v.Err != nil || needs {
				r.Violate("repair-failed-within-capacity", "right after Create was run again over the set (file %q updated in place), Verify does not find it intact: err=%v", w.Files[i].Name, v.Err)
			}
			lastRepairOK = false
		case 4:
			name = "verify"
			before := w.Disk.Snapshot()
			var v *OpResult
			if w.Par1 {
				v = r.Verify1(w, w.Index, t.Bool(1, 2, "all"), nil)
			} else {
				v = r.Verify2(w, w.Index, 1+t.Draw(4, "g"), nil, SchedSpec{})
			}
			r.noPanic(v)
			if diff := snapDiff(before, w.Disk.Snapshot()); diff != "" || len(v.Writes()) > 0 {
				r.Violate("verify-changed-state", "Verify changed the directory: %s (%d write calls)", diff, len(v.Writes()))
			}
		case 5, 6:
			name = "repair"
			dc := op == 6
			if dc {
				name = "repair-dc"
			}
			c14Repair(r, w, dc, &lastRepairOK, &failedRepairSeen, &recoveryRestoredAfterFail, &sawDamagedRepair)
		}
		next := w.abstractState(worldID)
		if worldID >= 0 {
			r.States = append(r.States, next)
			th := fnv.New64a()
			fmt.Fprintf(th, "%016x|%s|%016x", state, name, next)
			r.Trans = append(r.Trans, th.Sum64())
		}
		state = next
		classSeq = append(classSeq, name)
		t.End()
	}
	r.Class = fmt.Sprintf("par1=%v world=%d ops=%v", w.Par1, worldID, classSeq)
	r.Nontriv = sawDamagedRepair
}

func c14Repair(r *Run, w *World, dc bool, lastRepairOK, failedSeen, recRestored, sawDamaged *bool) {
	t := r.T
	before := w.Disk.Snapshot()
	damaged := !w.AllIntact()
	if damaged {
		*sawDamaged = true
	}
	premise := false
	singular := false
	lostBefore, genuineBefore := -1, false
	if !w.Par1 {
		tr0 := w.TruthPar2()
		lostBefore = tr0.Scan.N - tr0.Scan.Upper
		genuineBefore = tr0.RecoveryAllSnapshots && !tr0.RecoveryDamaged && tr0.IndexIntact
	}
	if w.Par1 {
		tr := w.TruthPar1()
		premise = tr.UnusableData <= len(tr.PresentVolumes) && len(tr.DamagedVolumes) == 0
		singular = singularPar1(tr)
	} else {
		tr := w.TruthPar2()
		premise = premiseRepair2(tr)
		if premise {
			sing, det := w.SingularPar2(tr)
			singular = sing || !det
		}
	}
	if *lastRepairOK {
		r.Probe("repair-after-repair")
	}
	var rep *OpResult
	if w.Par1 {
		rep = r.Repair1(w, w.Index, dc, nil)
	} else {
		rep = r.Repair2(w, w.Index, 1+t.Draw(4, "g"), dc, nil, SchedSpec{})
	}
	r.noPanic(rep)
	if rep.Err != nil {
		*lastRepairOK = false
		r.Probe("failed-repair-checked")
		// a failed Repair never increases the damage
		for i := range w.Files {
			p := w.Path(i)
			cur, ok := w.Disk.Get(p)
			prev, pok := before[p]
			same := ok == pok && string(cur) == string(prev)
			orig := ok && string(cur) == string(w.Files[i].Data)
			if !same && !orig {
				r.Violate("failed-repair-worsened", "after a failed Repair (%s) %q holds neither its previous content nor the original", rep.errString(), w.Files[i].Name)
			}
		}
		for p, prev := range before {
			if w.isProtectedPath(p) {
				continue
			}
			if cur, ok := w.Disk.Get(p); !ok || string(cur) != string(prev) {
				r.Violate("failed-repair-worsened", "a failed Repair changed %s", p)
			}
		}
		// with nothing but genuine recovery files around, a failed Repair
		// must not make the set harder to repair either: the number of
		// protected slices whose content exists nowhere any more must not
		// grow (otherwise "repeated attempts as more recovery files
		// arrive" would not converge)
		if lostBefore >= 0 && genuineBefore {
			tr1 := w.TruthPar2()
			if lostAfter := tr1.Scan.N - tr1.Scan.Upper; lostAfter > lostBefore {
				r.Violate("failed-repair-worsened", "a failed Repair (%s) destroyed protected content: %d slices existed nowhere before it, %d afterwards", rep.errString(), lostBefore, lostAfter)
			}
		}
		if premise && !singular {
			r.Violate("repair-failed-within-capacity", "Repair failed (%s) in a state where capacity suffices", rep.errString())
		}
		if premise && singular {
			r.Count("outcome:singular-or-undetermined")
		}
		*failedSeen = true
		return
	}
	if *failedSeen && *recRestored && damaged {
		r.Probe("repair-failed-then-recovery-restored-then-repaired")
	}
	*lastRepairOK = true
	if !w.AllIntact() {
		r.Violate("success-not-restored", "Repair returned success but %s", w.FirstDamaged())
	}
	// immediate Verify must be clean
	var v *OpResult
	if w.Par1 {
		v = r.Verify1(w, w.Index, false, nil)
	} else {
		v = r.Verify2(w, w.Index, 1, nil, SchedSpec{})
	}
	r.noPanic(v)
	if v.Err != nil {
		r.Violate("verify-after-repair-not-clean", "Verify fails right after a successful Repair: %v", v.Err)
	}
	if (w.Par1 && v.Counts1.RepairNeeded()) || (!w.Par1 && v.Counts.RepairNeeded()) {
		r.Violate("verify-after-repair-not-clean", "Verify reports repair needed right after a successful Repair (%+v %+v)", v.Counts, v.Counts1)
	}
	// immediate second Repair rewrites nothing
	var rep2 *OpResult
	if w.Par1 {
		rep2 = r.Repair1(w, w.Index, dc, nil)
	} else {
		rep2 = r.Repair2(w, w.Index, 1, dc, nil, SchedSpec{})
	}
	r.noPanic(rep2)
	r.Probe("second-repair-checked")
	// the statement binds "rewrites nothing"; that the second Repair
	// also succeeds follows from C01/C04 only while every recovery file
	// present is genuine (a format-valid but wrong recovery file may
	// legitimately make the double-check fail)
	genuine := false
	if w.Par1 {
		genuine = len(w.TruthPar1().DamagedVolumes) == 0
	} else {
		tr := w.TruthPar2()
		genuine = tr.RecoveryAllSnapshots && !tr.RecoveryDamaged
	}
	if rep2.Err != nil && genuine {
		r.Violate("second-repair-wrote", "a second Repair right after a successful one fails: %v", rep2.Err)
	}
	if n := len(rep2.Writes()); n > 0 || len(rep2.Repaired) > 0 {
		var ws []simdisk.Access
		ws = rep2.Writes()
		first := ""
		if len(ws) > 0 {
			first = ws[0].Resolved
		}
		r.Violate("second-repair-wrote", "a second Repair right after a successful one performed %d writes (first: %s) and listed %v", n, first, rep2.Repaired)
	}
}

func (w *World) isProtectedPath(p string) bool {
	for i := range w.Files {
		if w.Path(i) == p {
			return true
		}
	}
	return false
}
