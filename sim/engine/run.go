// Package engine runs simulated executions of gopar: one Run is a pure
// function of (profile, decision tape).
package engine

import (
	"encoding/json"
	"fmt"
	"hash/fnv"
	"os"
	"regexp"
	"runtime"
	"runtime/debug"
	"sort"
	"strconv"
	"strings"
	"time"

	"verifsim/sched"
	"verifsim/simdisk"
	"verifsim/tape"
)

// Violation is (property, kind, detail).
type Violation struct {
	Property string `json:"property"`
	Kind     string `json:"kind"`
	Detail   string `json:"detail"`
}

func (v Violation) String() string { return v.Property + "/" + v.Kind + ": " + v.Detail }

type violationPanic struct{ v Violation }

// knownStop ends a run quietly after an open known finding was hit.
type knownStop struct{}

// Known is one entry of /verif/known_findings.json.
type Known struct {
	ID       string `json:"id"`
	Property string `json:"property"`
	Kind     string `json:"kind"`
	Match    string `json:"match"`  // regular expression over the violation detail
	Status   string `json:"status"` // "open" or "fixed"
	Commit   string `json:"commit,omitempty"`
	What     string `json:"what"`
	// Continue: the run goes on after this finding was hit (only for
	// findings that leave the operation's result meaningful); by default
	// the run ends quietly, so that consequences of the known defect are
	// not reported as new violations.
	Continue bool `json:"continue,omitempty"`
	re       *regexp.Regexp
}

// KnownFile is the schema of known_findings.json.
type KnownFile struct {
	Findings []Known  `json:"findings"`
	Fixed    []string `json:"fixed_log,omitempty"`
}

var knownOpen []Known

// LoadKnown reads the known-findings file (read-only at run time).
func LoadKnown(path string) error {
	b, err := os.ReadFile(path)
	if err != nil {
		if os.IsNotExist(err) {
			return nil
		}
		return err
	}
	var kf KnownFile
	if err := json.Unmarshal(b, &kf); err != nil {
		return fmt.Errorf("known findings: %v", err)
	}
	knownOpen = nil
	for _, k := range kf.Findings {
		if k.Status != "open" {
			continue
		}
		re, err := regexp.Compile(k.Match)
		if err != nil {
			return fmt.Errorf("known finding %s: %v", k.ID, err)
		}
		k.re = re
		knownOpen = append(knownOpen, k)
	}
	return nil
}

// KnownOpen returns the open known findings.
func KnownOpen() []Known { return knownOpen }

func matchKnown(v Violation) *Known {
	for i := range knownOpen {
		k := &knownOpen[i]
		if k.Property == v.Property && k.Kind == v.Kind && k.re.MatchString(v.Detail) {
			return k
		}
	}
	return nil
}

// Run is one simulated execution.
type Run struct {
	Profile string
	Prop    string
	Tier    string
	Seed    uint64
	T       *tape.Tape

	Stats  map[string]int
	trace  []string
	digest uint64
	Events int

	Viol      *Violation
	KnownHits map[string]int
	Class     string
	Nontriv   bool
	// States / Trans: hashes of abstract states and transitions visited
	// (history profiles), unioned over the batch by the supervisor.
	States []uint64
	Trans  []uint64

	Sched *sched.Controller

	// SweepCase is the index of the deterministic sweep case this run
	// executes, or -1 for a seeded random case.
	SweepCase int

	scratch []string // real scratch dirs to remove
	// IgnoreKnown makes Violate treat known findings as violations
	// (used by replay of a known finding on purpose).
	IgnoreKnown bool
}

// Thorough reports whether the run belongs to the thorough tier.
func (r *Run) Thorough() bool { return r.Tier == "thorough" }

// Logf appends to the event log: the line is part of the determinism
// digest and of the human-readable trace. It never draws and never
// reads a clock.
func (r *Run) Logf(format string, args ...interface{}) {
	s := fmt.Sprintf(format, args...)
	h := fnv.New64a()
	var b [8]byte
	for i := 0; i < 8; i++ {
		b[i] = byte(r.digest >> (8 * uint(i)))
	}
	h.Write(b[:])
	h.Write([]byte(s))
	r.digest = h.Sum64()
	r.Events++
	if len(r.trace) < 400 {
		if len(s) > 300 {
			s = s[:300] + "..."
		}
		r.trace = append(r.trace, s)
	}
}

// LogAccesses logs disk accesses (each is one event of logical time).
func (r *Run) LogAccesses(as []simdisk.Access) {
	for _, a := range as {
		r.Logf("io %s", a.String())
		if a.Fault != simdisk.None {
			r.Count("fault:" + a.Fault.String())
		}
	}
}

// Count bumps a counter (fault kinds fired, probes, outcomes).
func (r *Run) Count(key string) { r.Stats[key]++ }

// Add adds to a counter.
func (r *Run) Add(key string, n int) { r.Stats[key] += n }

// Probe records that a rare condition was reached.
func (r *Run) Probe(name string) { r.Stats["probe:"+name]++ }

// Violate reports a violation of the run's property. If it matches an
// open known finding it is recorded and the run continues; otherwise
// the run is aborted.
func (r *Run) Violate(kind, format string, args ...interface{}) {
	v := Violation{Property: r.Prop, Kind: kind, Detail: oneLine(fmt.Sprintf(format, args...))}
	if !r.IgnoreKnown {
		if k := matchKnown(v); k != nil {
			r.KnownHits[k.ID]++
			r.Logf("known-finding %s: %s", k.ID, v.String())
			if k.Continue {
				return
			}
			panic(knownStop{})
		}
	}
	r.Logf("VIOLATION %s", v.String())
	panic(violationPanic{v})
}

// oneLine escapes control characters (file names in the worlds may hold
// line feeds, tabs, escape sequences): a violation is reported on one
// line, and the patterns of the known findings are matched against one.
func oneLine(s string) string {
	if strings.IndexFunc(s, func(c rune) bool { return c < 32 || c == 127 }) < 0 {
		return s
	}
	var sb strings.Builder
	for _, c := range s {
		if c < 32 || c == 127 {
			fmt.Fprintf(&sb, "\\x%02x", c)
		} else {
			sb.WriteRune(c)
		}
	}
	return sb.String()
}

// Result is what a run reports to the supervisor.
type Result struct {
	Index   int            `json:"i"`
	Seed    uint64         `json:"seed"`
	Profile string         `json:"profile"`
	Prop    string         `json:"prop"`
	Class   string         `json:"class"`
	Nontriv bool           `json:"nontriv"`
	Stats   map[string]int `json:"stats"`
	Events  int            `json:"events"`
	Digest  string         `json:"digest"`
	Draws   int            `json:"draws"`
	Viol    *Violation     `json:"viol,omitempty"`
	Known   map[string]int `json:"known,omitempty"`
	Trace   []string       `json:"trace,omitempty"`
	Tape    []uint64       `json:"tape,omitempty"`
	Overrun int            `json:"overrun,omitempty"`
	Sched   uint64         `json:"sched,omitempty"`
	Infra   string         `json:"infra,omitempty"`
	WallUS  int64          `json:"wall_us,omitempty"`
	Frames  [][2]int       `json:"frames,omitempty"`
	Sweep   bool           `json:"sweep,omitempty"`
	// StartProcs is the GOMAXPROCS value the process was started with
	// (environment; 0 = unset); package initialisation may depend on it.
	StartProcs int      `json:"start_procs,omitempty"`
	States     []uint64 `json:"states,omitempty"`
	Trans      []uint64 `json:"trans,omitempty"`
}

// Profile is a named simulated workload with its oracles, owned by one
// property.
type Profile struct {
	Name   string
	Prop   string
	Weight int // share of the seeded runs of the property's check
	// Sweep, when non-nil, returns the number of deterministic sweep
	// cases for the tier; run index i < Sweep() executes case i
	// (r.SweepCase = i) instead of a seeded random case.
	Sweep func(tier string) int
	Fn    func(r *Run)
	// Quick/Thorough: number of seeded runs per tier.
	Quick, Thorough int
}

var profiles []*Profile

// Register adds a profile.
func Register(p *Profile) { profiles = append(profiles, p) }

// ProfilesFor returns the profiles of a property in registration order.
func ProfilesFor(prop string) []*Profile {
	var out []*Profile
	for _, p := range profiles {
		if p.Prop == prop {
			out = append(out, p)
		}
	}
	return out
}

// ProfileByName finds a profile.
func ProfileByName(name string) *Profile {
	for _, p := range profiles {
		if p.Name == name {
			return p
		}
	}
	return nil
}

// Props lists the properties that have profiles.
func Props() []string {
	seen := map[string]bool{}
	var out []string
	for _, p := range profiles {
		if !seen[p.Prop] {
			seen[p.Prop] = true
			out = append(out, p.Prop)
		}
	}
	sort.Strings(out)
	return out
}

// StartProcs is the GOMAXPROCS environment value at process start.
var StartProcs = func() int {
	n, _ := strconv.Atoi(os.Getenv("GOMAXPROCS"))
	return n
}()

var theSched *sched.Controller

// Sched returns the process-wide scheduler controller (installed once).
func Sched() *sched.Controller {
	if theSched == nil {
		theSched = sched.New()
	}
	return theSched
}

// Execute runs profile p on tape t and returns the result. It recovers
// violations, crashes of the system under test on the calling
// goroutine, and enforces a wall-clock watchdog (hang).
func Execute(p *Profile, tier string, seed uint64, t *tape.Tape, index int, hangAfter time.Duration) Result {
	r := &Run{Profile: p.Name, Prop: p.Prop, Tier: tier, Seed: seed, T: t, Stats: map[string]int{}, KnownHits: map[string]int{}, digest: 1469598103934665603}
	r.Sched = Sched()
	r.Sched.Reset()
	r.Sched.SetMode(sched.Off)
	r.Sched.Pick = nil
	r.SweepCase = -1
	if p.Sweep != nil && index >= 0 && index < p.Sweep(tier) {
		r.SweepCase = index
	}
	start := time.Now()
	done := make(chan struct{})
	var infra string
	go func() {
		defer close(done)
		defer func() {
			if x := recover(); x != nil {
				switch e := x.(type) {
				case violationPanic:
					v := e.v
					r.Viol = &v
				case knownStop:
				case tape.ErrTooManyDraws:
					infra = "run drew more than the tape bound"
				default:
					// a panic that escaped every oracle's own recover is a
					// defect of the simulator, not of gopar
					infra = fmt.Sprintf("simulator panic: %v\n%s", x, debug.Stack())
				}
			}
		}()
		// GOMAXPROCS is part of the simulated configuration (it decides
		// gopar's default goroutine count), so it comes from the tape
		// and not from the environment
		gmp := []int{4, 1, 2, 8, 16}[t.Draw(5, "gomaxprocs")]
		runtime.GOMAXPROCS(gmp)
		r.Logf("run profile=%s seed=%d tier=%s sweep=%d gomaxprocs=%d", p.Name, seed, tier, r.SweepCase, gmp)
		p.Fn(r)
	}()
	select {
	case <-done:
	case <-time.After(hangAfter):
		v := Violation{Property: p.Prop, Kind: "hang", Detail: fmt.Sprintf("run did not finish within %v; last events: %s", hangAfter, strings.Join(tail(r.trace, 4), " | "))}
		r.Viol = &v
	}
	r.cleanup()
	t.CloseAll()
	if st := r.Sched.Stats; st.Regions > 0 {
		r.Stats["sched:regions"] = st.Regions
		r.Stats["sched:releases"] = st.Releases
		r.Stats["sched:preemptions"] = st.Preemptions
		r.Stats["sched:driven-steps"] = st.DrivenSteps
		if st.BudgetExhausted > 0 {
			r.Stats["probe:drive-budget-exhausted"] = st.BudgetExhausted
		}
		if st.MaxWorkers > r.Stats["max:sched-workers"] {
			r.Stats["max:sched-workers"] = st.MaxWorkers
		}
	}
	res := Result{Index: index, Seed: seed, Profile: p.Name, Prop: p.Prop, Class: r.Class, Nontriv: r.Nontriv, Stats: r.Stats,
		Events: r.Events, Digest: fmt.Sprintf("%016x", r.digest), Draws: t.Len(), Viol: r.Viol, Overrun: t.Overrun, Infra: infra,
		Sched: r.Sched.Stats.ScheduleHash, WallUS: time.Since(start).Microseconds()}
	if len(r.KnownHits) > 0 {
		res.Known = r.KnownHits
	}
	res.Trace = r.trace
	res.Sweep = r.SweepCase >= 0
	res.StartProcs = StartProcs
	res.States = r.States
	res.Trans = r.Trans
	res.Tape = t.Values()
	for _, f := range t.Frames {
		res.Frames = append(res.Frames, [2]int{f.Start, f.End})
	}
	return res
}

func tail(s []string, n int) []string {
	if len(s) > n {
		return s[len(s)-n:]
	}
	return s
}

func (r *Run) cleanup() {
	for _, d := range r.scratch {
		os.RemoveAll(d)
	}
	r.scratch = nil
}

// Scratch creates a real scratch directory (tmpfs when available)
// that is removed when the run ends.
func (r *Run) Scratch() string {
	base := ""
	if st, err := os.Stat("/dev/shm"); err == nil && st.IsDir() {
		base = "/dev/shm"
	}
	d, err := os.MkdirTemp(base, "verifsim-")
	if err != nil {
		d, err = os.MkdirTemp("", "verifsim-")
		if err != nil {
			panic(fmt.Sprintf("scratch: %v", err))
		}
	}
	r.scratch = append(r.scratch, d)
	return d
}
