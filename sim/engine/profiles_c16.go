package engine

import (
	"fmt"
	"hash/crc32"

	"verifsim/ref"
	"verifsim/simdisk"
)

func init() {
	Register(&Profile{Name: "edit-resync", Prop: "C16", Weight: 10, Quick: 60000, Thorough: 1500000, Sweep: c16SweepCount, Fn: editResync})
	SetMeta("C16", &Meta{
		Level: "exploration",
		Rule:  "one edited file A (random content) beside an intact file B; a single insertion or deletion of L bytes at position p (sweep: every p in [0,len] x every L in [1,2S+3] for small (S, len) pairs; seeded: random S in {4..256}, len a multiple of S or not, p biased to slice boundaries), or A's content under B's name / files swapped. Create is run with exactly as many recovery blocks as the edit geometrically touches (0 blocks: every recovery file deleted). Oracle from edit geometry, not from any scanner: usable >= N - touched, usable <= upper, Repair with exactly `touched` blocks restores the files. Non-trivial: the edit changed the file and left at least one slice of A relocated; distinct by (S, len mod S class, edit kind, p class, L class, touched).",
		Assumptions: []string{
			"content is random, so accidental or overlapping matches are improbable; when the geometric bound exceeds the reference scanner's lower bound anyway, the run is counted under counters.geometry-above-lower and held to the scanner's bound",
			"a short final slice counts as surviving only while it still ends the file (zero padding only at end of file), as the property states",
		},
		ProbesWant: []string{"insert-on-slice-boundary", "insert-at-0", "insert-at-end", "delete-across-boundary", "L>S", "zero-blocks-needed", "len-multiple-of-S", "len-not-multiple-of-S", "renamed-content"},
	})
}

type c16Case struct {
	S, N1  int  // slice size, length of file A
	Del    bool // deletion instead of insertion
	P, L   int
	Rename int  // 0 none, 1 swap, 2 copy A over B
	Zeros  bool // the inserted bytes are zeros (seeded runs: only for p == len)
}

var c16Shapes = [][2]int{{4, 14}, {4, 16}, {8, 29}, {8, 32}, {12, 40}, {16, 50}, {20, 61}}

func c16Enumerate(tier string) []c16Case {
	shapes := c16Shapes[:2]
	if tier == "thorough" {
		shapes = c16Shapes
	}
	var out []c16Case
	for _, sh := range shapes {
		s, n := sh[0], sh[1]
		for del := 0; del < 2; del++ {
			for p := 0; p <= n; p++ {
				for l := 1; l <= 2*s+3; l++ {
					if del == 1 && (p >= n) {
						continue
					}
					out = append(out, c16Case{S: s, N1: n, Del: del == 1, P: p, L: l})
				}
			}
		}
		out = append(out, c16Case{S: s, N1: n, Rename: 1}, c16Case{S: s, N1: n, Rename: 2})
	}
	if tier != "thorough" {
		// quick: a slice of the (8,29) shape: all p for a few L
		s, n := 8, 29
		for del := 0; del < 2; del++ {
			for p := 0; p <= n; p++ {
				for _, l := range []int{1, 7, 8, 9, 19} {
					if del == 1 && p >= n {
						continue
					}
					out = append(out, c16Case{S: s, N1: n, Del: del == 1, P: p, L: l})
				}
			}
		}
	}
	return out
}

var c16Cache = map[string][]c16Case{}

func c16SweepCount(tier string) int {
	if c, ok := c16Cache[tier]; ok {
		return len(c)
	}
	c16Cache[tier] = c16Enumerate(tier)
	return len(c16Cache[tier])
}

// touchedSlices computes, from edit geometry alone, which slices of a
// file of length n (slice size s) no longer exist contiguously after
// inserting (del=false) or deleting (del=true) l bytes at p.
func touchedSlices(n, s int, del bool, p, l int, zeros ...bool) (touched []bool) {
	zeroIns := len(zeros) > 0 && zeros[0]
	k := (n + s - 1) / s
	touched = make([]bool, k)
	for i := 0; i < k; i++ {
		start := i * s
		end := start + s
		short := false
		if end > n {
			end = n
			short = true
		}
		if !del {
			switch {
			case p <= start:
				// entirely after the insertion: shifted, still ends the file if it did
			case p >= end:
				// entirely before; a short last slice is followed by inserted
				// bytes instead of end of file
				// (p == n here); unless the inserted bytes are zeros: then the
				// slice is still followed by nothing but zeros up to end of file
				if short && !zeroIns {
					touched[i] = true
				}
			default:
				touched[i] = true
			}
		} else {
			dEnd := p + l
			if dEnd > n {
				dEnd = n
			}
			switch {
			case end <= p:
				// entirely before the removed range
				if short {
					touched[i] = true // cannot happen (short slice ends at n > p) but keep the rule explicit
				}
			case start >= dEnd:
				// entirely after: shifted
			default:
				touched[i] = true
			}
		}
	}
	return
}

func editResync(r *Run) {
	t := r.T
	var c c16Case
	if r.SweepCase >= 0 {
		c = c16Cache[r.Tier][r.SweepCase]
	} else {
		ss := []int{4, 8, 12, 16, 20, 36, 60, 64, 100, 256, 500, 1000, 2048, 4096}
		c.S = ss[t.Draw(len(ss), "S")]
		if t.Bool(1, 500, "huge-window") {
			// window sizes just above multiples of 16 KiB
			c.S = []int{16384, 16388, 32768, 32772, 65540}[t.Draw(5, "huge-S")]
			r.Probe("window>=16KiB")
		}
		k := 1 + t.Draw(7, "slices")
		if c.S > 4096 {
			k = 1 + t.Draw(3, "slices-huge")
		}
		if c.S <= 20 && t.Bool(1, 20, "thousands-of-slices") {
			// a file of a few thousand slices
			k = 2000 + t.Draw(3000, "many-slices")
			r.Probe("file-of-thousands-of-slices")
		}
		c.N1 = k * c.S
		if t.Bool(1, 2, "ragged") {
			c.N1 -= 1 + t.Draw(c.S-1, "short")
		}
		switch t.Pick([]int{5, 5, 1, 1, 1}, "edit") {
		case 1:
			c.Del = true
		case 2:
			c.Rename = 1
		case 3:
			c.Rename = 2
		case 4:
			c.Rename = 3
		}
		across16k := false
		if c.S <= 4096 && t.Bool(1, 15, "across-16k") {
			// a file reaching a few slices beyond 16 KiB, edited around that boundary
			c.N1 = 16384 + t.Draw(3*c.S+1, "beyond-16k")
			across16k = true
			r.Probe("edit-around-16KiB")
		}
		c.L = 1 + t.Draw(2*c.S+3, "L")
		switch t.Pick([]int{3, 3, 1, 1}, "p-class") {
		case 0:
			c.P = t.Draw(c.N1+1, "p")
		case 1:
			c.P = t.Draw(c.N1/c.S+1, "p-k") * c.S
		case 2:
			c.P = 0
		case 3:
			c.P = c.N1
		}
		if across16k {
			c.P = 16384 - c.S + t.Draw(3*c.S, "p-16k")
		}
		if c.P > c.N1 {
			c.P = c.N1
		}
		if c.Del && c.P >= c.N1 {
			c.P = c.N1 - 1
		}
		if !c.Del && c.Rename == 0 && c.P == c.N1 && t.Bool(1, 2, "zeros") {
			// the file is extended by zero bytes
			c.Zeros = true
		}
	}
	seed := uint64(c.S*100000 + c.N1)
	if r.SweepCase < 0 {
		seed = t.Draw64(0, "content-seed")
	}
	akind := ckRandom
	if r.SweepCase < 0 && c.S >= 8 && c.N1 >= 2*c.S && t.Bool(1, 5, "crc-twins") {
		// two different slices of A share their CRC-32
		akind = ckCRCTwins
		r.Probe("slices-sharing-crc32")
	}
	if r.SweepCase < 0 && akind == ckRandom && c.N1 >= 2*c.S && t.Bool(1, 5, "few-duplicates") {
		// some slices of A repeat an earlier slice or are zero-filled
		akind = ckFewDuplicates
		r.Probe("repeated-slices")
	}
	if r.SweepCase < 0 && akind == ckRandom && c.N1 >= 2*c.S && t.Bool(1, 8, "zero-led") {
		// sparse content: slices that are zeros up to their last bytes; the
		// inserted bytes are then zeros as well, half of the time
		akind = ckZeroLed
		if !c.Del && c.Rename == 0 && t.Bool(1, 2, "zeros-inserted") {
			c.Zeros = true
		}
		r.Probe("zero-led-slices")
	}
	a := expandContent(akind, seed, c.N1, c.S)
	b := expandContent(ckRandom, seed^0x5555, c.S+1+int(seed%3), c.S)
	if c.Rename == 3 {
		// b.dat holds the same content as a.dat (a slice-aligned copy, or
		// a slice-aligned prefix of it); a.dat will be lost
		b = append([]byte(nil), a...)
		if len(a) > c.S && t.Bool(1, 2, "aligned-prefix") {
			k := 1 + t.Draw(len(a)/c.S, "prefix-slices")
			// every slice b.dat does not hold costs a recovery block: keep
			// that number moderate for files of thousands of slices
			if lost := (len(a)+c.S-1)/c.S - k; lost > 64 {
				k += lost - 64
			}
			b = append([]byte(nil), a[:k*c.S]...)
		}
	}
	d := simdisk.NewMem()
	d.MkdirAll("/w/set")
	d.Cwd = "/w/set"
	w := &World{Disk: d, Dir: "/w/set", Base: "set", Index: "/w/set/set.par2", S: c.S, G: 1,
		Files:   []ref.Protected{{Name: "a.dat", Data: a}, {Name: "b.dat", Data: b}},
		Created: map[string][]byte{}, Bystanders: map[string][]byte{}, Exps: map[string][]int{}}
	d.Put(w.Path(0), a)
	d.Put(w.Path(1), b)
	nA := (len(a) + c.S - 1) / c.S
	nB := (len(b) + c.S - 1) / c.S
	w.N = nA + nB

	// geometry
	touched := 0
	bLost := false
	siblingMissing := false
	var edited []byte
	desc := ""
	switch {
	case c.Rename == 1:
		desc = "swap a.dat <-> b.dat"
	case c.Rename == 2:
		desc = "a.dat's content under b.dat's name (a.dat kept)"
		touched = nB
		r.Probe("renamed-content")
	case c.Rename == 3:
		desc = "a.dat deleted while b.dat (intact) holds a slice-aligned copy of its content"
		// slices of a.dat that b.dat does not hold are lost; a final
		// partial slice of a.dat is held only if b.dat ends the same way
		held := len(b) / c.S
		if len(b) == len(a) {
			held = nA
		}
		touched = nA - held
		r.Probe("slices-held-by-intact-file")
	default:
		ts := touchedSlices(len(a), c.S, c.Del, c.P, c.L, c.Zeros)
		for _, x := range ts {
			if x {
				touched++
			}
		}
		if c.Del {
			end := c.P + c.L
			if end > len(a) {
				end = len(a)
			}
			edited = append(append([]byte(nil), a[:c.P]...), a[end:]...)
			desc = fmt.Sprintf("delete %d bytes at %d", end-c.P, c.P)
			if c.P/c.S != (end-1)/c.S {
				r.Probe("delete-across-boundary")
			}
		} else {
			g := prng{s: seed ^ uint64(c.P*131+c.L)}
			ins := make([]byte, c.L)
			for i := range ins {
				ins[i] = byte(g.next())
			}
			if c.Zeros {
				ins = make([]byte, c.L)
				r.Probe("zero-extended")
			}
			if r.SweepCase < 0 && !c.Zeros && c.S >= 8 && c.L >= 4 && c.L < c.S && c.P+c.S-c.L <= len(a) && len(a) >= 2*c.S && t.Bool(1, 5, "forged-window") {
				// the inserted bytes are chosen so that the window starting at
				// the insertion has the CRC-32 of some protected slice (but
				// not its content): a checksum look-alike right in front of a
				// surviving slice
				win := append(append([]byte(nil), ins...), a[c.P:c.P+c.S-c.L]...)
				k := t.Draw(len(a)/c.S, "lookalike-of")
				if forgeCRCAt(win, c.L-4, crc32.ChecksumIEEE(a[k*c.S:(k+1)*c.S])) && string(win) != string(a[k*c.S:(k+1)*c.S]) {
					copy(ins, win[:c.L])
					r.Probe("crc-lookalike-window-before-surviving-slice")
				}
			}
			insKind := ""
			if r.SweepCase < 0 && !c.Zeros && len(a) >= 2*c.S {
				switch t.Pick([]int{12, 1, 1}, "inserted-content") {
				case 1:
					// the inserted bytes contain an intact copy of the slice the
					// insertion cuts in two (or of the slice before it)
					k := c.P / c.S
					if (k+1)*c.S > len(a) {
						k = len(a)/c.S - 1
					}
					pre := make([]byte, t.Draw(c.S, "junk-before-copy"))
					for i := range pre {
						pre[i] = byte(g.next())
					}
					ins = append(pre, a[k*c.S:(k+1)*c.S]...)
					c.L = len(ins)
					insKind = "junk+copy-of-slice"
					r.Probe("insertion-contains-copy-of-cut-slice")
				case 2:
					// the whole content of the other protected file, which is
					// then lost itself (split files joined by mistake)
					ins = append([]byte(nil), b...)
					c.L = len(ins)
					insKind = "content-of-b.dat"
					bLost = true
					r.Probe("other-file-inserted-mid-file")
				}
			}
			edited = append(append(append([]byte(nil), a[:c.P]...), ins...), a[c.P:]...)
			desc = fmt.Sprintf("insert %d bytes at %d", c.L, c.P)
			if insKind != "" {
				desc += " (" + insKind + ")"
			}
			if c.Zeros && c.P == len(a) {
				desc = fmt.Sprintf("append %d zero bytes", c.L)
			} else if c.Zeros {
				desc = fmt.Sprintf("insert %d zero bytes at %d", c.L, c.P)
			}
			if c.P%c.S == 0 {
				r.Probe("insert-on-slice-boundary")
			}
			if c.P == 0 {
				r.Probe("insert-at-0")
			}
			if c.P == len(a) {
				r.Probe("insert-at-end")
			}
		}
		if c.L > c.S {
			r.Probe("L>S")
		}
	}
	if len(a)%c.S == 0 {
		r.Probe("len-multiple-of-S")
	} else {
		r.Probe("len-not-multiple-of-S")
	}
	if r.SweepCase < 0 && c.Rename == 0 && !bLost && t.Bool(1, 6, "sibling-missing") {
		// the other protected file is missing altogether while this one is
		// edited: all of its slices need recovery blocks, none of this
		// file's surviving slices may be lost over it
		siblingMissing = true
		touched += nB
		r.Probe("edited-file-beside-a-missing-one")
	}
	if bLost && len(b)%c.S != 0 {
		// b.dat's short final slice is followed by more data where it now
		// sits (zero padding counts only at end of file): one block for it
		touched++
	}
	w.R = touched
	if w.R == 0 {
		w.R = 1
		r.Probe("zero-blocks-needed")
	}
	r.Logf("edit-resync S=%d lenA=%d lenB=%d N=%d edit=%q touched=%d", c.S, len(a), len(b), w.N, desc, touched)
	cre := r.Create2(w, w.FilePaths(), nil, SchedSpec{})
	r.noPanic(cre)
	if cre.Err != nil {
		r.Violate("create-failed", "Create failed: %v", cre.Err)
	}
	w.RecordCreated(r, cre)
	if touched == 0 {
		for _, p := range w.RecoveryPaths() {
			d.Remove(p)
		}
	}
	// apply the edit
	switch c.Rename {
	case 1:
		d.Put(w.Path(0), b)
		d.Put(w.Path(1), a)
	case 2:
		d.Put(w.Path(1), a)
	case 3:
		d.Remove(w.Path(0))
	default:
		d.Put(w.Path(0), edited)
		if bLost || siblingMissing {
			d.Remove(w.Path(1))
		}
	}
	r.Count("damage:" + map[bool]string{false: "insert", true: "remove-bytes"}[c.Del])
	tr := w.TruthPar2()
	bound := w.N - touched
	if bound > tr.Scan.Lower {
		r.Count("geometry-above-lower")
		bound = tr.Scan.Lower
	}
	v := r.Verify2(w, w.Index, []int{1, 1, 2, 3, 8}[t.Draw(5, "verify-g")], nil, SchedSpec{})
	r.noPanic(v)
	if v.Err != nil {
		r.Violate("verify-error", "Verify failed: %v", v.Err)
	}
	if v.Counts.UsableDataShardCount < bound {
		r.Violate("usable-below-geometry", "S=%d len=%d %s: Verify counts %d usable slices, but the edit touches only %d of %d slices (at least %d survive contiguously)", c.S, len(a), desc, v.Counts.UsableDataShardCount, touched, w.N, bound)
	}
	// the statement itself: every slice that still exists contiguously,
	// not overlapping another surviving slice, counts as usable - which can
	// be more than geometry promises when the edit brought copies along
	if v.Counts.UsableDataShardCount < tr.Scan.Lower {
		r.Violate("usable-below-lower", "S=%d len=%d %s: Verify counts %d usable slices but %d of %d slices are cleanly present somewhere in the surviving files", c.S, len(a), desc, v.Counts.UsableDataShardCount, tr.Scan.Lower, w.N)
	}
	if v.Counts.UsableDataShardCount > tr.Scan.Upper {
		r.Violate("usable-above-upper", "S=%d len=%d %s: Verify counts %d usable slices, only %d have their content anywhere", c.S, len(a), desc, v.Counts.UsableDataShardCount, tr.Scan.Upper)
	}
	rep := r.Repair2(w, w.Index, 1+t.Draw(3, "g"), false, nil, SchedSpec{})
	r.noPanic(rep)
	if rep.Err != nil {
		if w.N-tr.Scan.Lower <= len(tr.IntactExps) {
			r.Violate("repair-failed-within-capacity", "S=%d len=%d %s: Repair failed (%s) with %d recovery blocks for %d touched slices", c.S, len(a), desc, rep.errString(), len(tr.IntactExps), touched)
		}
		r.Count("geometry-repair-not-held")
	} else if !w.AllIntact() {
		r.Violate("success-not-restored", "Repair returned success but %s", w.FirstDamaged())
	}
	pc := "mid"
	if c.P%c.S == 0 {
		pc = "boundary"
	}
	lc := "<S"
	if c.L == c.S {
		lc = "=S"
	} else if c.L > c.S {
		lc = ">S"
	}
	r.Class = fmt.Sprintf("S=%d mod=%d del=%v rename=%d p=%s L=%s touched=%d", c.S, len(a)%c.S, c.Del, c.Rename, pc, lc, touched)
	r.Nontriv = touched < nA || c.Rename != 0
}
