package engine

import (
	"crypto/md5"
	"fmt"
	"github.com/akalin/gopar/par1"
	"path/filepath"
	"sort"
	"strings"
	"verifsim/simdisk"

	"verifsim/ref"
)

func init() {
	Register(&Profile{Name: "durability-par1", Prop: "C04", Weight: 10, Quick: 40000, Thorough: 800000, Fn: func(r *Run) { par1Cycle(r, false) }})
	Register(&Profile{Name: "write-discipline-par1", Prop: "C02", Weight: 4, Quick: 8000, Thorough: 200000, Fn: func(r *Run) { par1Cycle(r, true) }})
}

// Truth1 is the reference view of a PAR1 world state.
type Truth1 struct {
	UsableData     int
	UnusableData   int
	MissingFiles   []int // 1-based file numbers that are not intact
	PresentVolumes []int // volume numbers present and byte-identical to what Create wrote
	DamagedVolumes []int // present but different
	IndexIntact    bool
	// BeyondTwoDigits: intact volumes numbered 100 and up (Create writes
	// them when asked for more than 99 volumes; the property speaks of
	// volume counts up to 99, so a reader may use them or leave them alone)
	BeyondTwoDigits []int
}

// VolumePath returns the path of parity volume v (1-based).
func (w *World) VolumePath(v int) string {
	return filepath.Join(w.Dir, fmt.Sprintf("%s.p%02d", w.Base, v))
}

// TruthPar1 computes the reference view.
func (w *World) TruthPar1() Truth1 {
	var t Truth1
	for i := range w.Files {
		if w.Intact(i) {
			t.UsableData++
		} else {
			t.UnusableData++
			t.MissingFiles = append(t.MissingFiles, i+1)
		}
	}
	idx, ok := w.Disk.Get(w.Index)
	t.IndexIntact = ok && string(idx) == string(w.Created[w.Index])
	for v := 1; v <= 255; v++ {
		p := w.VolumePath(v)
		b, ok := w.Disk.Get(p)
		if !ok {
			continue
		}
		if v > 99 {
			if snap, has := w.Created[p]; has && len(b) >= 0x20 && len(snap) >= 0x20 && string(snap[0x20:]) == string(b[0x20:]) {
				t.BeyondTwoDigits = append(t.BeyondTwoDigits, v)
			}
			continue
		}
		// a volume is intact when everything the format protects (all
		// bytes from 0x20 on, covered by the control hash) is what Create
		// wrote; the generator id in the upper half of the version field
		// is neither protected nor meaningful
		if snap, has := w.Created[p]; has && len(b) >= 0x20 && len(snap) >= 0x20 && string(snap[0x20:]) == string(b[0x20:]) {
			t.PresentVolumes = append(t.PresentVolumes, v)
		} else {
			t.DamagedVolumes = append(t.DamagedVolumes, v)
		}
	}
	return t
}

// singularPar1 decides whether the reconstruction PAR1 has to attempt
// (rows: lowest-numbered usable volumes, columns: unusable files) is
// singular over GF(2^8).
func singularPar1(t Truth1) bool {
	k := len(t.MissingFiles)
	if k == 0 || k > len(t.PresentVolumes) {
		return false
	}
	return ref.Par1Singular(t.PresentVolumes[:k], t.MissingFiles)
}

// oracleVerify1 compares PAR1 Verify's counts with the truth. strict:
// counts must be equal; otherwise only over-reporting is a violation.
func (r *Run) oracleVerify1(w *World, res *OpResult, t Truth1, strict bool) {
	if !res.HasRes {
		return
	}
	c := res.Counts1
	if c.UsableDataFileCount > t.UsableData || (strict && (c.UsableDataFileCount != t.UsableData || c.UnusableDataFileCount != t.UnusableData)) {
		r.Violate("par1-count-mismatch", "Verify counts %d usable / %d unusable data files; truth %d / %d", c.UsableDataFileCount, c.UnusableDataFileCount, t.UsableData, t.UnusableData)
	}
	if c.UsableParityFileCount > len(t.PresentVolumes)+len(t.BeyondTwoDigits) || (strict && c.UsableParityFileCount < len(t.PresentVolumes)) {
		r.Violate("par1-count-mismatch", "Verify counts %d usable parity volumes; %d are present and intact %v (and %d numbered 100 and up)", c.UsableParityFileCount, len(t.PresentVolumes), t.PresentVolumes, len(t.BeyondTwoDigits))
	}
	if strict {
		if c.RepairNeeded() != (t.UnusableData > 0) {
			r.Violate("par1-count-mismatch", "RepairNeeded()=%v with %d unusable data files", c.RepairNeeded(), t.UnusableData)
		}
		if len(t.BeyondTwoDigits) == 0 && c.RepairPossible() != (t.UnusableData <= len(t.PresentVolumes)) {
			r.Violate("par1-count-mismatch", "RepairPossible()=%v with %d unusable data files and %d usable volumes", c.RepairPossible(), t.UnusableData, len(t.PresentVolumes))
		}
	}
}

// par1Cycle: Create, delete/corrupt data files, delete volumes, Verify,
// Repair, Verify.
func par1Cycle(r *Run, hostile bool) {
	t := r.T
	w := GenWorld(r, GenOpts{Par1: true, MaxFiles: 32})
	prop := r.Prop
	nonEmpty := false
	for _, f := range w.Files {
		if len(f.Data) > 0 {
			nonEmpty = true
		}
	}
	if !nonEmpty {
		w.Files[0].Data = []byte{0x42}
		w.Disk.Put(w.Path(0), w.Files[0].Data)
	}
	if len(w.Files)+w.R < 250 && t.Bool(1, 12, "nul-twin-name") {
		// two names that differ only by a trailing NUL character (possible
		// in a PAR1 entry, whose names are counted UTF-16 strings, and on
		// the simulated disk)
		src := w.Files[t.Draw(len(w.Files), "twin-of")]
		if !strings.Contains(src.Name, "\x00") {
			nf := ref.Protected{Name: src.Name + "\x00", Data: expandContent(ckRandom, t.Draw64(0, "twin-seed"), 1+t.Draw(100, "twin-len"), 4)}
			w.Files = append(w.Files, nf)
			w.Disk.Put(w.Path(len(w.Files)-1), nf.Data)
			r.Probe("names-differing-by-trailing-NUL")
		}
	}
	// spelling of the index path and the inputs: absolute, or relative
	// to the virtual working directory when that is the set's directory
	index := w.Index
	paths := w.FilePaths()
	if w.Disk.Cwd == w.Dir && t.Bool(1, 2, "relative-paths") {
		index = w.Base + ".par"
		for i, f := range w.Files {
			paths[i] = f.Name
		}
		r.Probe("relative-paths")
	}
	if len(w.Files)+par1.NumParityFilesDefault <= 256 && t.Bool(1, 25, "library-defaults") {
		w.R = par1.NumParityFilesDefault
		w.UseDefaults = true
		r.Probe("library-defaults")
	}
	cre := r.Create1(w, index, paths, nil)
	r.noPanic(cre)
	if cre.Err != nil {
		r.Violate("create-failed", "PAR1 Create failed on a valid file set: %v", cre.Err)
		return
	}
	w.RecordCreated(r, cre)
	if prop == "C02" {
		r.oracleWrites(w, cre, "create")
	}
	if w.UseDefaults && len(w.Created) > 1 {
		// how many volumes the default is, is read off what was written
		w.R = len(w.Created) - 1
	}
	if len(w.Created) != w.R+1 {
		r.Violate("create-failed", "PAR1 Create wrote %d files, expected index + %d volumes", len(w.Created), w.R)
	}

	foreign := false
	if t.Bool(1, 8, "foreign-writer") {
		// the same set as another PAR1 client would have written it (in
		// the write-discipline worlds too, since wave u: the entries that
		// are listed but not saved are bystanders Repair must not touch;
		// such a run plants no hostile volume besides)
		w.RewriteAsForeignPar1(r)
		foreign = true
	}

	if t.Bool(1, 3, "verify-clean") {
		tr := w.TruthPar1()
		v := r.Verify1(w, index, true, nil)
		r.noPanic(v)
		if prop == "C04" {
			if v.Err != nil {
				r.Violate("verify-error-on-clean-set", "PAR1 Verify failed on an untouched set: %v", v.Err)
			}
			r.oracleVerify1(w, v, tr, true)
			if v.HasRes && !v.AllData {
				r.Violate("par1-alldata-false", "untouched set does not verify clean with the full parity check (counts %+v)", v.Counts1)
			}
		}
		if prop == "C02" {
			r.oracleWrites(w, v, "verify")
		}
	}

	// damage
	var kinds []string
	nd := t.Pick([]int{1, 5, 3, 2, 1}, "ndamage")
	for i := 0; i < nd; i++ {
		kinds = append(kinds, w.DamageData(r, []string{"delete", "flip", "overwrite", "truncate", "append-garbage", "empty", "swap", "copy-over", "insert"}))
	}
	volsDeleted := 0
	if t.Bool(2, 3, "lose-volumes") {
		mode := t.Pick([]int{3, 1, 1, 1}, "vol-mode")
		for v := 1; v <= w.R; v++ {
			del := false
			switch mode {
			case 0:
				del = t.Bool(1, 3, "del")
			case 1:
				del = v == 1
			case 2:
				del = true
			case 3:
				del = v != w.R
			}
			if del {
				w.Disk.Remove(w.VolumePath(v))
				volsDeleted++
				r.Logf("delete volume p%02d", v)
			}
		}
		if volsDeleted > 0 {
			r.Count("damage:delete-volume")
		}
		if volsDeleted == w.R {
			r.Probe("no-volume-left")
		}
	}
	hostileKind := ""
	if hostile && !foreign && t.Bool(1, 2, "hostile") {
		hostileKind = w.hostilePar1(r)
	}
	tr := w.TruthPar1()
	r.Logf("truth1 usable=%d unusable=%v volumes=%v damagedVolumes=%v", tr.UsableData, tr.MissingFiles, tr.PresentVolumes, tr.DamagedVolumes)

	v := r.Verify1(w, index, t.Bool(1, 2, "verify-all"), nil)
	r.noPanic(v)
	if prop == "C04" {
		if v.Err != nil {
			r.Violate("verify-error", "PAR1 Verify failed although index and volumes are undamaged: %v", v.Err)
		}
		r.oracleVerify1(w, v, tr, true)
	}
	if prop == "C02" {
		r.oracleWrites(w, v, "verify")
	}

	dc := t.Bool(1, 2, "doublecheck")
	needWork := tr.UnusableData > 0
	var repPlan []simdisk.Fault
	if prop == "C02" && needWork && t.Bool(1, 4, "repair-write-fault") {
		kind := []simdisk.Kind{simdisk.WriteENOSPC, simdisk.WriteTorn, simdisk.WriteTruncErr}[t.Draw(3, "fault-kind")]
		repPlan = []simdisk.Fault{{NthWrite: 1 + t.Draw(3, "fault-write"), Kind: kind, KeepPermille: t.Draw(1001, "keep"), ErrStyle: t.Draw(5, "error-style")}}
		r.Probe("repair-with-write-fault")
	}
	rep := r.Repair1(w, index, dc, repPlan)
	r.noPanic(rep)
	outcome := "repaired"
	if rep.Err != nil {
		outcome = "failed"
	}
	if prop == "C04" {
		if rep.Err == nil {
			if !w.AllIntact() {
				r.Violate("success-not-restored", "PAR1 Repair returned success but %s", w.FirstDamaged())
			}
		} else if tr.UnusableData <= len(tr.PresentVolumes) && len(tr.DamagedVolumes) == 0 {
			if singularPar1(tr) {
				r.Count("outcome:singular-permitted")
				r.Probe("singular-case")
				outcome = "singular"
			} else {
				r.Violate("repair-failed-within-capacity", "PAR1 Repair failed (%s) although %d unusable data files %v <= %d usable volumes %v, sub-matrix non-singular", rep.errString(), tr.UnusableData, tr.MissingFiles, len(tr.PresentVolumes), tr.PresentVolumes)
			}
		}
	}
	if prop == "C02" {
		r.oracleWrites(w, rep, "repair")
	}
	if t.Bool(1, 2, "verify-after") {
		tr2 := w.TruthPar1()
		v2 := r.Verify1(w, index, true, nil)
		r.noPanic(v2)
		if prop == "C04" {
			r.oracleVerify1(w, v2, tr2, true)
		}
		if prop == "C02" {
			r.oracleWrites(w, v2, "verify")
		}
	}
	sort.Strings(kinds)
	capOK := tr.UnusableData <= len(tr.PresentVolumes)
	r.Class = fmt.Sprintf("nf=%s V=%s dmg=%s unusable=%s voldel=%s hostile=%s cap=%v out=%s", sizeClass(len(w.Files)), sizeClass(w.R), strings.Join(uniq(kinds), "+"), sizeClass(tr.UnusableData), sizeClass(volsDeleted), hostileKind, capOK, outcome)
	r.Nontriv = needWork || hostileKind != ""
}

// hostilePar1 damages or plants parity volumes (C02/C13 workloads).
func (w *World) hostilePar1(r *Run) string {
	t := r.T
	t.Begin("hostile-par1")
	defer t.End()
	kinds := []string{"flip-in-volume", "truncate-volume", "foreign-volume", "garbage-volume", "flip-in-index", "empty-volume", "forged-volume", "volume-holds-sibling", "volume-holds-index"}
	kind := kinds[t.Draw(len(kinds), "kind")]
	return w.hostilePar1Kind(r, kind)
}

func (w *World) hostilePar1Kind(r *Run, kind string) string {
	t := r.T
	var present []int
	for v := 1; v <= 99; v++ {
		if _, ok := w.Disk.Get(w.VolumePath(v)); ok {
			present = append(present, v)
		}
	}
	pick := func() (string, []byte) {
		if len(present) == 0 {
			return "", nil
		}
		p := w.VolumePath(present[t.Draw(len(present), "which")])
		b, _ := w.Disk.Get(p)
		return p, append([]byte(nil), b...)
	}
	switch kind {
	case "flip-in-volume", "truncate-volume", "empty-volume":
		p, b := pick()
		if p == "" || len(b) == 0 {
			return "none"
		}
		switch kind {
		case "flip-in-volume":
			b[t.Draw(len(b), "off")] ^= 1 << uint(t.Draw(8, "bit"))
		case "truncate-volume":
			b = b[:t.Draw(len(b), "cut")]
		default:
			b = []byte{}
		}
		w.Disk.Put(p, b)
		r.Logf("hostile %s %s", kind, filepath.Base(p))
	case "forged-volume":
		// a volume that passes every check of the format (control hash
		// recomputed) but whose parity payload is wrong
		p, b := pick()
		v := ref.ParsePar1(b)
		if p == "" || !v.OK || len(v.Data) == 0 {
			return "none"
		}
		off := len(b) - len(v.Data) + t.Draw(len(v.Data), "off")
		b[off] ^= byte(1 + t.Draw(255, "xor"))
		sum := md5.Sum(b[0x20:])
		copy(b[0x10:0x20], sum[:])
		w.Disk.Put(p, b)
		r.Logf("hostile forged volume %s (payload altered, control hash recomputed)", filepath.Base(p))
		r.Probe("forged-volume")
	case "foreign-volume":
		// a valid volume of another set under the next free volume name
		other := []ref.Par1File{{Name: "foreign.bin", Data: expandContent(ckRandom, t.Draw64(0, "fseed"), 50, 4), Status: 1}}
		b := ref.BuildPar1(other, uint64(w.R+1), ref.Par1Parity([][]byte{other[0].Data}, w.R+1))
		w.Disk.Put(w.VolumePath(w.R+1), b)
		r.Logf("hostile foreign volume p%02d", w.R+1)
	case "garbage-volume":
		g := prng{s: t.Draw64(0, "gseed")}
		b := make([]byte, 10+t.Draw(200, "len"))
		for i := range b {
			b[i] = byte(g.next())
		}
		w.Disk.Put(w.VolumePath(w.R+1), b)
		r.Logf("hostile garbage volume p%02d", w.R+1)
	case "volume-holds-sibling":
		// one valid file turned into another valid-looking one: a volume
		// file holds the bytes of another volume of the same set (a
		// mix-up when copying), and that other volume is gone, swapped
		// with it, or still in place
		if len(present) < 2 {
			return "none"
		}
		i := t.Draw(len(present), "dst")
		j := (i + 1 + t.Draw(len(present)-1, "src")) % len(present)
		dst, src := w.VolumePath(present[i]), w.VolumePath(present[j])
		db, _ := w.Disk.Get(dst)
		sb, _ := w.Disk.Get(src)
		w.Disk.Put(dst, append([]byte(nil), sb...))
		switch t.Draw(3, "source-fate") {
		case 0:
			w.Disk.Remove(src)
		case 1:
			w.Disk.Put(src, append([]byte(nil), db...))
		}
		r.Logf("hostile: %s now holds the bytes of %s", filepath.Base(dst), filepath.Base(src))
		r.Probe("volume-holds-sibling-bytes")
	case "volume-holds-index":
		p, _ := pick()
		ib, ok := w.Disk.Get(w.Index)
		if p == "" || !ok {
			return "none"
		}
		w.Disk.Put(p, append([]byte(nil), ib...))
		r.Logf("hostile: %s now holds the bytes of the index", filepath.Base(p))
	case "flip-in-index":
		b, _ := w.Disk.Get(w.Index)
		b = append([]byte(nil), b...)
		if len(b) > 0 {
			b[t.Draw(len(b), "off")] ^= 1 << uint(t.Draw(8, "bit"))
			w.Disk.Put(w.Index, b)
		}
		r.Logf("hostile flip in PAR1 index")
	}
	r.Count("hostile:" + kind)
	return kind
}
