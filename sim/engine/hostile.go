package engine

import (
	"encoding/binary"
	"fmt"
	"path/filepath"
	"sort"

	"verifsim/ref"
)

// hostileRecovery puts a damaged, foreign or stale recovery file beside
// the index. It returns the kind.
func (w *World) hostileRecovery(r *Run) string {
	t := r.T
	t.Begin("hostile-recovery")
	defer t.End()
	kinds := []string{"stale-same-setid", "foreign-set", "flip-in-recovery", "truncate-recovery", "garbage-named-like-volume", "empty-recovery", "flip-in-index", "forged-recovery-block", "conflicting-duplicate", "recovery-holds-sibling", "recovery-holds-index", "length-field-grows"}
	kind := kinds[t.Draw(len(kinds), "kind")]
	return w.hostileRecoveryKind(r, kind)
}

// hostileRecoveryKind applies one given kind of hostile recovery file.
func (w *World) hostileRecoveryKind(r *Run, kind string) string {
	t := r.T
	paths := w.RecoveryPaths()
	var present []string
	for _, p := range paths {
		if _, ok := w.Disk.Get(p); ok {
			present = append(present, p)
		}
	}
	switch kind {
	case "stale-same-setid":
		// a recovery file from an earlier Create of files with the same
		// names, lengths and first 16 KiB but different later content:
		// the recovery set id is identical
		variant := make([]ref.Protected, len(w.Files))
		changed := false
		for i, f := range w.Files {
			d := append([]byte(nil), f.Data...)
			if len(d) > 16384 {
				g := prng{s: t.Draw64(0, "vseed")}
				n := 1 + int(g.next()%64)
				for k := 0; k < n; k++ {
					o := 16384 + int(g.next()%uint64(len(d)-16384))
					d[o] ^= byte(1 + g.next()%255)
				}
				changed = true
			}
			variant[i] = ref.Protected{Name: f.Name, Data: d}
		}
		if !changed {
			kind = "stale-identical"
		} else {
			r.Probe("stale-volume-same-setid")
		}
		used := map[int]bool{}
		for _, p := range present {
			for _, e := range w.Exps[p] {
				used[e] = true
			}
		}
		var exps []int
		if t.Bool(1, 2, "stale-exponents-anywhere") {
			// any of the free exponents, not the lowest ones: a gap may
			// remain below the stale blocks
			var free []int
			for e := 0; e < w.R+4; e++ {
				if !used[e] {
					free = append(free, e)
				}
			}
			for k := 1 + t.Draw(3, "nstale"); k > 0 && len(free) > 0; k-- {
				j := t.Draw(len(free), "free")
				exps = append(exps, free[j])
				free = append(free[:j], free[j+1:]...)
			}
			sort.Ints(exps)
		} else {
			for e := 0; e < w.R+4 && len(exps) < 1+t.Draw(3, "nstale"); e++ {
				if !used[e] {
					exps = append(exps, e)
				}
			}
		}
		if len(exps) == 0 {
			exps = []int{w.R + 7}
		}
		set := ref.BuildSet(variant, w.S, exps, "stale")
		var b []byte
		b = append(b, set.Creator...)
		for _, p := range set.CriticalPackets() {
			b = append(b, p...)
		}
		for _, e := range exps {
			b = append(b, set.Recovery[e]...)
		}
		name := fmt.Sprintf("%s.vol%02d+%02d.par2", w.Base, exps[0]+50, len(exps))
		w.Disk.Put(filepath.Join(w.Dir, name), b)
		r.Logf("hostile %s: %s exps=%v", kind, name, exps)
	case "stale-generation-all":
		// every recovery file present is the one an earlier Create wrote
		// when the files had the same names, lengths and first 16 KiB but
		// other bytes after that (same file ids, same recovery set id):
		// a complete, self-consistent generation that does not fit the
		// index's full-file hashes
		variant := make([]ref.Protected, len(w.Files))
		changed := false
		for i, f := range w.Files {
			d := append([]byte(nil), f.Data...)
			if len(d) > 16384 {
				g := prng{s: t.Draw64(0, "vseed")}
				n := 1 + int(g.next()%8)
				for k := 0; k < n; k++ {
					o := 16384 + int(g.next()%uint64(len(d)-16384))
					d[o] ^= byte(1 + g.next()%255)
				}
				changed = true
			}
			variant[i] = ref.Protected{Name: f.Name, Data: d}
		}
		if !changed || len(present) == 0 {
			return "none"
		}
		var all []int
		seen := map[int]bool{}
		for _, p := range present {
			for _, e := range w.Exps[p] {
				if !seen[e] {
					seen[e] = true
					all = append(all, e)
				}
			}
		}
		if w.N*len(all)*w.S > 6<<20 {
			return "none"
		}
		set := ref.BuildSet(variant, w.S, all, "older generation")
		for _, p := range present {
			nb := append([]byte(nil), set.Creator...)
			for _, c := range set.CriticalPackets() {
				nb = append(nb, c...)
			}
			for _, e := range w.Exps[p] {
				nb = append(nb, set.Recovery[e]...)
			}
			w.Disk.Put(p, nb)
		}
		r.Probe("all-volumes-of-an-older-generation")
		r.Logf("hostile %s: %d recovery files replaced", kind, len(present))
	case "forged-recovery-block":
		// a recovery packet that is valid by the format's own checks
		// (framing, packet MD5, set id, exponent) but carries wrong
		// recovery data: what a buggy or malicious producer, or an old
		// volume of the same set id, looks like to the reader
		if len(present) == 0 {
			return "none"
		}
		p := present[t.Draw(len(present), "which")]
		b, _ := w.Disk.Get(p)
		pk, _ := ref.ParsePackets(b)
		var rec []ref.Packet
		for _, x := range pk {
			if x.Type == ref.TypeRecvSlic {
				rec = append(rec, x)
			}
		}
		if len(rec) == 0 {
			return "none"
		}
		x := rec[t.Draw(len(rec), "packet")]
		body := append([]byte(nil), x.Body...)
		n := 1 + t.Draw(3, "nbytes")
		for i := 0; i < n && len(body) > 4; i++ {
			body[4+t.Draw(len(body)-4, "off")] ^= byte(1 + t.Draw(255, "xor"))
		}
		forged := ref.MakePacket(x.SetID, x.Type, body)
		nb := append(append(append([]byte(nil), b[:x.Offset]...), forged...), b[x.Offset+x.Length:]...)
		w.Disk.Put(p, nb)
		r.Logf("hostile forged recovery block in %s", filepath.Base(p))
		r.Probe("forged-recovery-block")
	case "conflicting-duplicate":
		// a copy of a recovery file under another name in which one block
		// is valid by the format's checks but differs from the original:
		// the same exponent now exists twice with different content, and
		// which one a reader ends up with depends on the listing order
		if len(present) == 0 {
			return "none"
		}
		src := present[t.Draw(len(present), "which")]
		b, _ := w.Disk.Get(src)
		pk, _ := ref.ParsePackets(b)
		var rec []ref.Packet
		for _, x := range pk {
			if x.Type == ref.TypeRecvSlic {
				rec = append(rec, x)
			}
		}
		if len(rec) == 0 {
			return "none"
		}
		x := rec[t.Draw(len(rec), "packet")]
		body := append([]byte(nil), x.Body...)
		if len(body) > 4 {
			body[4+t.Draw(len(body)-4, "off")] ^= byte(1 + t.Draw(255, "xor"))
		}
		forged := ref.MakePacket(x.SetID, x.Type, body)
		nb := append(append(append([]byte(nil), b[:x.Offset]...), forged...), b[x.Offset+x.Length:]...)
		suffix := []string{".a.par2", ".zz.par2", " (2).par2"}[t.Draw(3, "suffix")]
		dst := src[:len(src)-5] + suffix
		w.Disk.Put(dst, nb)
		r.Logf("hostile conflicting duplicate %s of %s", filepath.Base(dst), filepath.Base(src))
		r.Probe("conflicting-duplicate-block")
	case "recovery-holds-sibling", "recovery-holds-index":
		// one valid file turned into another valid-looking one: a
		// recovery file holds the bytes of another recovery file of the
		// set (that one gone, swapped with it, or still there), or of the
		// index
		if len(present) == 0 {
			return "none"
		}
		i := t.Draw(len(present), "dst")
		dst := present[i]
		db, _ := w.Disk.Get(dst)
		if kind == "recovery-holds-index" || len(present) < 2 {
			ib, ok := w.Disk.Get(w.Index)
			if !ok {
				return "none"
			}
			w.Disk.Put(dst, append([]byte(nil), ib...))
			r.Logf("hostile: %s now holds the bytes of the index", filepath.Base(dst))
			kind = "recovery-holds-index"
			break
		}
		src := present[(i+1+t.Draw(len(present)-1, "src"))%len(present)]
		sb, _ := w.Disk.Get(src)
		w.Disk.Put(dst, append([]byte(nil), sb...))
		switch t.Draw(3, "source-fate") {
		case 0:
			w.Disk.Remove(src)
		case 1:
			w.Disk.Put(src, append([]byte(nil), db...))
		}
		r.Logf("hostile: %s now holds the bytes of %s", filepath.Base(dst), filepath.Base(src))
		r.Probe("recovery-file-holds-sibling-bytes")
	case "length-field-grows":
		// the length field of a packet (not covered by the packet's MD5)
		// is damaged to a larger, still plausible value: a multiple of 4
		// that ends at a later packet boundary or inside the file
		if len(present) == 0 {
			return "none"
		}
		p := present[t.Draw(len(present), "which")]
		b, _ := w.Disk.Get(p)
		pk, _ := ref.ParsePackets(b)
		if len(pk) < 2 {
			return "none"
		}
		i := t.Draw(len(pk)-1, "packet")
		x := pk[i]
		newLen := pk[i+1].Offset + pk[i+1].Length - x.Offset
		if t.Bool(1, 3, "odd-end") {
			newLen = x.Length + 4*(1+t.Draw((len(b)-x.Offset-x.Length)/4, "extra-words"))
		}
		nb := append([]byte(nil), b...)
		binary.LittleEndian.PutUint64(nb[x.Offset+8:], uint64(newLen))
		w.Disk.Put(p, nb)
		r.Logf("hostile length-field-grows: packet %d of %s now claims %d bytes (was %d)", i, filepath.Base(p), newLen, x.Length)
		r.Probe("packet-length-field-grown")
	case "foreign-set":
		other := []ref.Protected{{Name: "foreign.bin", Data: expandContent(ckRandom, t.Draw64(0, "fseed"), 3*w.S+1, w.S)}}
		set := ref.BuildSet(other, w.S, []int{0, 1}, "foreign")
		var b []byte
		b = append(b, set.Creator...)
		for _, p := range set.CriticalPackets() {
			b = append(b, p...)
		}
		b = append(b, set.Recovery[0]...)
		b = append(b, set.Recovery[1]...)
		name := w.Base + ".vol77+02.par2"
		w.Disk.Put(filepath.Join(w.Dir, name), b)
		r.Logf("hostile foreign-set: %s", name)
	case "flip-in-recovery", "truncate-recovery", "empty-recovery":
		if len(present) == 0 {
			return "none"
		}
		p := present[t.Draw(len(present), "which")]
		b, _ := w.Disk.Get(p)
		b = append([]byte(nil), b...)
		switch kind {
		case "flip-in-recovery":
			o := t.Draw(len(b), "off")
			b[o] ^= 1 << uint(t.Draw(8, "bit"))
		case "truncate-recovery":
			b = b[:t.Draw(len(b), "cut")]
		case "empty-recovery":
			b = []byte{}
		}
		w.Disk.Put(p, b)
		r.Logf("hostile %s: %s", kind, filepath.Base(p))
	case "garbage-named-like-volume":
		g := prng{s: t.Draw64(0, "gseed")}
		b := make([]byte, 10+t.Draw(200, "len"))
		for i := range b {
			b[i] = byte(g.next())
		}
		name := w.Base + ".vol99+01.par2"
		w.Disk.Put(filepath.Join(w.Dir, name), b)
		r.Logf("hostile garbage file %s", name)
	case "index-cut-at-packet-boundary", "index-lacks-a-packet":
		// the index file holds only some of its packets: cut at a packet
		// boundary (an interrupted copy), or one packet missing in the
		// middle - every volume file beside it still repeats all of them
		b, _ := w.Disk.Get(w.Index)
		pk, _ := ref.ParsePackets(b)
		if len(pk) < 2 {
			return "none"
		}
		var nb []byte
		if kind == "index-cut-at-packet-boundary" {
			keep := 1 + t.Draw(len(pk)-1, "packets-kept")
			nb = append(nb, b[:pk[keep-1].Offset+pk[keep-1].Length]...)
		} else {
			drop := t.Draw(len(pk), "packet-dropped")
			for i, x := range pk {
				if i != drop {
					nb = append(nb, b[x.Offset:x.Offset+x.Length]...)
				}
			}
		}
		w.Disk.Put(w.Index, nb)
		r.Probe("index-incomplete")
		r.Logf("hostile %s: index has %d of %d bytes", kind, len(nb), len(b))
	case "flip-in-index":
		b, _ := w.Disk.Get(w.Index)
		b = append([]byte(nil), b...)
		if len(b) > 0 {
			o := t.Draw(len(b), "off")
			b[o] ^= 1 << uint(t.Draw(8, "bit"))
			w.Disk.Put(w.Index, b)
		}
		r.Logf("hostile flip in index")
	}
	r.Count("hostile:" + kind)
	return kind
}

// forgeLowestBlock rewrites the recovery packet with the lowest exponent
// present (the first one Repair will use) so that it stays valid by the
// format's checks but carries wrong data.
func (w *World) forgeLowestBlock(r *Run) bool {
	bestE := -1
	bestP := ""
	var bestPkt ref.Packet
	var bestB []byte
	for _, p := range w.RecoveryPaths() {
		b, ok := w.Disk.Get(p)
		if !ok {
			continue
		}
		pk, _ := ref.ParsePackets(b)
		for _, x := range pk {
			if e, ok := ref.RecoveryExponent(x); ok && (bestE < 0 || int(e) < bestE) {
				bestE, bestP, bestPkt, bestB = int(e), p, x, b
			}
		}
	}
	if bestE < 0 || len(bestPkt.Body) < 6 {
		return false
	}
	body := append([]byte(nil), bestPkt.Body...)
	body[4+r.T.Draw(len(body)-4, "forge-off")] ^= byte(1 + r.T.Draw(255, "forge-xor"))
	forged := ref.MakePacket(bestPkt.SetID, bestPkt.Type, body)
	nb := append(append(append([]byte(nil), bestB[:bestPkt.Offset]...), forged...), bestB[bestPkt.Offset+bestPkt.Length:]...)
	w.Disk.Put(bestP, nb)
	r.Logf("recovery block %d in %s forged (valid packet, wrong data)", bestE, filepath.Base(bestP))
	r.Probe("forged-recovery-block")
	r.Count("hostile:forged-lowest-block")
	return true
}

// RewriteAsForeignPar1 replaces the archive files present on disk by
// what another PAR1 client would have written for the same data files:
// volumes from the independent reference writer, optionally a comment in
// the index, and one or two entries that are listed but not saved in
// the volume set (status bit 0 clear) at tape-chosen places among the
// saved ones; their files lie beside the set, or do not exist.
func (w *World) RewriteAsForeignPar1(r *Run) {
	t := r.T
	t.Begin("foreign-par1-writer")
	defer t.End()
	var files []ref.Par1File
	var datas [][]byte
	for _, f := range w.Files {
		files = append(files, ref.Par1File{Name: f.Name, Data: f.Data, Status: 1})
		datas = append(datas, f.Data)
	}
	nextra := t.Draw(3, "unsaved-entries")
	for k := 0; k < nextra; k++ {
		extra := ref.Par1File{Name: fmt.Sprintf("listed-only%d.txt", k), Data: expandContent(ckText, t.Draw64(0, "extra-seed"), t.Draw(300, "extra-len"), 4), Status: 0}
		at := t.Draw(len(files)+1, "extra-pos")
		files = append(files[:at], append([]ref.Par1File{extra}, files[at:]...)...)
		if t.Bool(2, 3, "extra-present") {
			w.Disk.Put(filepath.Join(w.Dir, extra.Name), extra.Data)
			w.Bystanders[filepath.Join(w.Dir, extra.Name)] = extra.Data
		}
		r.Probe("par1-listed-but-unsaved-entry")
	}
	var comment []byte
	if t.Bool(1, 2, "comment") {
		for _, u := range []rune("written by another client \u00e9\U0001F600")[:1+t.Draw(27, "comment-len")] {
			if u > 0xffff {
				u = '?'
			}
			comment = append(comment, byte(u), byte(u>>8))
		}
		r.Probe("par1-index-comment")
	}
	for p := range w.Created {
		if _, ok := w.Disk.Get(p); !ok {
			continue
		}
		var nb []byte
		if p == w.Index {
			nb = ref.BuildPar1(files, 0, comment)
		} else {
			v := 0
			for k := 1; k <= w.R; k++ {
				if w.VolumePath(k) == p {
					v = k
				}
			}
			if v == 0 {
				continue
			}
			nb = ref.BuildPar1(files, uint64(v), ref.Par1Parity(datas, v))
		}
		w.Disk.Put(p, nb)
		w.Created[p] = nb
	}
	r.Logf("archive rewritten as by another PAR1 client: %d unsaved entries, %d comment bytes", nextra, len(comment))
	r.Probe("par1-foreign-writer")
}

// RewriteAsForeignPar2 replaces the archive files present on disk by
// what another PAR2 client would have written for the same data files,
// slice size and recovery exponents (packets from the independent
// reference writer), optionally with files in the main packet's
// non-recovery set: listed and described, but not protected. Returns
// false (and changes nothing) when the set is too big for the reference
// arithmetic.
func (w *World) RewriteAsForeignPar2(r *Run) bool {
	t := r.T
	t.Begin("foreign-par2-writer")
	defer t.End()
	var all []int
	seen := map[int]bool{}
	for _, es := range w.Exps {
		for _, e := range es {
			if !seen[e] {
				seen[e] = true
				all = append(all, e)
			}
		}
	}
	if w.N*len(all)*w.S > 6<<20 || w.N > 3000 {
		return false
	}
	for _, f := range w.Files {
		if len(f.Data) == 0 {
			return false
		}
	}
	var extras []ref.Protected
	nn := t.Draw(3, "non-recovery-files")
	for k := 0; k < nn; k++ {
		e := ref.Protected{Name: fmt.Sprintf("not-protected%d.txt", k), Data: expandContent(ckText, t.Draw64(0, "extra-seed"), 1+t.Draw(300, "extra-len"), 4)}
		extras = append(extras, e)
		if t.Bool(2, 3, "extra-present") {
			w.Disk.Put(filepath.Join(w.Dir, e.Name), e.Data)
			w.Bystanders[filepath.Join(w.Dir, e.Name)] = e.Data
		}
		r.Probe("par2-non-recovery-set-file")
	}
	remap := map[int]int{}
	if t.Bool(1, 3, "own-exponents") {
		// the other client numbers its recovery blocks its own way: a run
		// that starts elsewhere (par2cmdline's first-block option), among
		// others one that ends at the highest exponent there is (65534),
		// or scattered values
		sort.Ints(all)
		n := len(all)
		scheme := t.Draw(3, "exponent-scheme")
		if w.N > 12 || w.N*w.S > 1024 {
			// (gopar builds its coding matrix for every exponent up to the
			// highest one present, and the double check regenerates every
			// one of those blocks: keep all but tiny sets to low exponents)
			scheme = 3
		}
		switch scheme {
		case 3:
			base := []int{1, 2, 255, 256, 1000}[t.Draw(5, "first-exponent-low")]
			for k, e := range all {
				remap[e] = base + k
			}
		case 0:
			base := []int{1, 255, 256, 32767, 65535 - n, 65534 - n}[t.Draw(6, "first-exponent")]
			for k, e := range all {
				remap[e] = base + k
			}
		case 1:
			base := t.Draw(65535-n, "first-exponent-any")
			for k, e := range all {
				remap[e] = base + k
			}
		default:
			used := map[int]bool{}
			var vals []int
			if t.Bool(1, 2, "with-highest") {
				vals = append(vals, 65534)
				used[65534] = true
			}
			for len(vals) < n {
				v := t.Draw(65535, "exponent")
				if !used[v] {
					used[v] = true
					vals = append(vals, v)
				}
			}
			sort.Ints(vals)
			for k, e := range all {
				remap[e] = vals[k]
			}
		}
		for k, e := range all {
			all[k] = remap[e]
		}
		for p, es := range w.Exps {
			ne := make([]int, len(es))
			for k, e := range es {
				ne[k] = remap[e]
			}
			w.Exps[p] = ne
		}
		r.Probe("par2-foreign-writer-own-exponents")
	}
	set := ref.BuildSet(w.Files, w.S, all, "another client", extras...)
	for p := range w.Created {
		if _, ok := w.Disk.Get(p); !ok {
			continue
		}
		nb := append([]byte(nil), set.Creator...)
		for _, c := range set.CriticalPackets() {
			nb = append(nb, c...)
		}
		if p != w.Index {
			for _, e := range w.Exps[p] {
				nb = append(nb, set.Recovery[e]...)
			}
		}
		w.Disk.Put(p, nb)
		w.Created[p] = nb
	}
	r.Logf("archive rewritten as by another PAR2 client: %d files in the non-recovery set", nn)
	r.Probe("par2-foreign-writer")
	return true
}
