package engine

import (
	"fmt"
	"sync"

	"verifsim/ref"
)

// pivot-stress: a rare branch forced on purpose. Gaussian elimination
// in gopar exchanges rows only when a leading minor of the
// reconstruction matrix vanishes, which random damage hits with
// probability about 2^-16 per pattern. The reference arithmetic is used
// to *search* for erasure patterns with a vanishing leading 3x3 minor
// (and a non-singular full matrix), and the run damages exactly those
// slices after losing the recovery file that makes the exponents
// non-contiguous. The oracle is C01's, unchanged.
func init() {
	Register(&Profile{Name: "pivot-stress", Prop: "C01", Weight: 1, Quick: 300, Thorough: 6000, Fn: func(r *Run) { pivotStress(r, false) }})
	// the same search used for C13: erasure patterns whose matrix is
	// genuinely singular (the format's permitted failure), combined with
	// recovery files cut at packet boundaries, must end in an error or a
	// correct repair - never in a crash or a hang
	Register(&Profile{Name: "singular-stress", Prop: "C13", Weight: 1, Quick: 300, Thorough: 6000, Fn: func(r *Run) { pivotStress(r, true) }})
}

type pivotKey struct{ n, gap int }

var (
	pivotMu    sync.Mutex
	pivotCache = map[pivotKey][][3]int{}
)

func pivotStress(r *Run, singularMode bool) {
	t := r.T
	S := []int{4, 8, 16}[t.Draw(3, "S")]
	n := 160 + 20*t.Draw(6, "slices")
	// Create writes blocks 0 | 1,2 | 3..6 | 7..: losing the second or
	// third recovery file leaves the exponents {0,3,4,5,6} or {0,1,2,7,..}
	gap := t.Draw(2, "gap")
	var exps [3]int
	R := 7
	if gap == 0 {
		exps = [3]int{0, 3, 4}
	} else {
		exps = [3]int{0, 1, 2}
		R = 9
	}
	// gap 1 keeps 0,1,2 contiguous: leading minors never vanish there, so
	// use rows {0,1,7} by also losing exponent 2? Not expressible with
	// whole files; use gap 0 geometry with a different size instead.
	if gap == 1 {
		exps = [3]int{0, 3, 4}
		R = 7
		n += 10
	}
	key := pivotKey{n, 0}
	pivotMu.Lock()
	triples, ok := pivotCache[key]
	if !ok {
		triples = ref.ZeroMinorTriples(exps, n, 64)
		pivotCache[key] = triples
	}
	pivotMu.Unlock()
	if len(triples) == 0 {
		r.Count("pivot:no-pattern-found")
		return
	}
	tri := triples[t.Draw(len(triples), "pattern")]
	size := n*S - t.Draw(S, "tail")
	w := GenWorld(r, GenOpts{MaxFiles: 1, SliceSizes: []int{S}, RandomOnly: true})
	data := expandContent(ckRandom, t.Draw64(0, "cseed"), size, S)
	w.Files = w.Files[:1]
	w.Files[0].Data = data
	for _, p := range w.Disk.SortedPaths() {
		w.Disk.Remove(p)
	}
	w.Bystanders = map[string][]byte{}
	w.Disk.Put(w.Path(0), data)
	w.N = (size + S - 1) / S
	w.R = R
	w.G = []int{1, 2, 4}[t.Draw(3, "g")]
	cre := r.Create2(w, w.FilePaths(), nil, SchedSpec{})
	r.noPanic(cre)
	if cre.Err != nil {
		r.Violate("create-failed", "Create failed: %v", cre.Err)
	}
	w.RecordCreated(r, cre)
	// lose the recovery file holding exponents 1 and 2
	for p, e := range w.Exps {
		if len(e) == 2 && e[0] == 1 {
			w.Disk.Remove(p)
			r.Logf("recovery file %s lost (exponents %v)", p, e)
		}
	}
	// damage the three pattern slices and a fourth one (the full 4x4
	// matrix is then almost surely regular but needs a row exchange); in
	// singular mode, or sometimes, exactly the three: the matrix gopar
	// has to invert is singular, the one failure the format permits
	fourth := t.Draw(w.N, "fourth")
	cols := []int{tri[0], tri[1], tri[2], fourth}
	if singularMode || t.Bool(1, 4, "exact-singular") {
		cols = cols[:3]
		r.Probe("singular-erasure-pattern")
	}
	if singularMode {
		// cut the last recovery file at a packet boundary so that the
		// surviving exponents have a second gap
		var last string
		for p, e := range w.Exps {
			if len(e) > 0 && e[0] == 3 {
				last = p
			}
		}
		if b, ok := w.Disk.Get(last); ok && t.Bool(2, 3, "cut-volume") {
			pk, _ := ref.ParsePackets(b)
			var recOff []int
			for _, x := range pk {
				if x.Type == ref.TypeRecvSlic {
					recOff = append(recOff, x.Offset)
				}
			}
			if len(recOff) > 2 {
				cut := recOff[1+t.Draw(len(recOff)-1, "cut-at")]
				// keep the packets before the cut and, sometimes, the last
				// recovery packet as well (a hole in the middle)
				nb := append([]byte(nil), b[:cut]...)
				if t.Bool(1, 2, "keep-last") {
					lastPkt := recOff[len(recOff)-1]
					if lastPkt > cut {
						nb = append(nb, b[lastPkt:]...)
					}
				}
				w.Disk.Put(last, nb)
				r.Logf("recovery file %s cut at packet boundary %d (%d of %d bytes kept)", last, cut, len(nb), len(b))
				r.Probe("second-gap-in-exponents")
			}
		}
	}
	cur := append([]byte(nil), data...)
	for _, c := range cols {
		o := c * S
		if o < len(cur) {
			cur[o] ^= 0x5a
		}
	}
	w.Disk.Put(w.Path(0), cur)
	r.Logf("pivot-stress S=%d N=%d surviving exponents start %v, damaged slices %v (leading 3x3 minor vanishes)", S, w.N, exps, cols)
	r.Probe("zero-leading-minor")
	tr := w.TruthPar2()
	if singularMode {
		c13Observe(r, w, t.Bool(1, 2, "dc"))
		r.Class = fmt.Sprintf("singular S=%d N=%d pattern=%v exps=%v", S, w.N, tri, tr.IntactExps)
		r.Nontriv = true
		return
	}
	rep := r.Repair2(w, w.Index, w.G, t.Bool(1, 2, "dc"), nil, SchedSpec{})
	r.noPanic(rep)
	r.oracleRepair2(w, rep, tr)
	r.Class = fmt.Sprintf("pivot S=%d N=%d pattern=%v", S, w.N, tri)
	r.Nontriv = premiseRepair2(tr)
}
