package engine

import (
	"fmt"
	"sync"

	"verifsim/ref"
)

// pivot-stress: a rare branch forced on purpose. Gaussian elimination
// in gopar exchanges rows only when a leading minor of the
// reconstruction matrix vanishes, which random damage hits with
// probability about 2^-16 per pattern. The reference arithmetic is used
// to *search* for erasure patterns with a vanishing leading 3x3 minor
// (and a non-singular full matrix), and the run damages exactly those
// slices after losing the recovery file that makes the exponents
// non-contiguous. The oracle is C01's, unchanged.
func init() {
	Register(&Profile{Name: "pivot-stress", Prop: "C01", Weight: 1, Quick: 300, Thorough: 6000, Fn: pivotStress})
}

type pivotKey struct{ n, gap int }

var (
	pivotMu    sync.Mutex
	pivotCache = map[pivotKey][][3]int{}
)

func pivotStress(r *Run) {
	t := r.T
	S := []int{4, 8, 16}[t.Draw(3, "S")]
	n := 160 + 20*t.Draw(6, "slices")
	// Create writes blocks 0 | 1,2 | 3..6 | 7..: losing the second or
	// third recovery file leaves the exponents {0,3,4,5,6} or {0,1,2,7,..}
	gap := t.Draw(2, "gap")
	var exps [3]int
	R := 7
	if gap == 0 {
		exps = [3]int{0, 3, 4}
	} else {
		exps = [3]int{0, 1, 2}
		R = 9
	}
	// gap 1 keeps 0,1,2 contiguous: leading minors never vanish there, so
	// use rows {0,1,7} by also losing exponent 2? Not expressible with
	// whole files; use gap 0 geometry with a different size instead.
	if gap == 1 {
		exps = [3]int{0, 3, 4}
		R = 7
		n += 10
	}
	key := pivotKey{n, 0}
	pivotMu.Lock()
	triples, ok := pivotCache[key]
	if !ok {
		triples = ref.ZeroMinorTriples(exps, n, 64)
		pivotCache[key] = triples
	}
	pivotMu.Unlock()
	if len(triples) == 0 {
		r.Count("pivot:no-pattern-found")
		return
	}
	tri := triples[t.Draw(len(triples), "pattern")]
	size := n*S - t.Draw(S, "tail")
	w := GenWorld(r, GenOpts{MaxFiles: 1, SliceSizes: []int{S}, RandomOnly: true})
	data := expandContent(ckRandom, t.Draw64(0, "cseed"), size, S)
	w.Files = w.Files[:1]
	w.Files[0].Data = data
	for _, p := range w.Disk.SortedPaths() {
		w.Disk.Remove(p)
	}
	w.Bystanders = map[string][]byte{}
	w.Disk.Put(w.Path(0), data)
	w.N = (size + S - 1) / S
	w.R = R
	w.G = []int{1, 2, 4}[t.Draw(3, "g")]
	cre := r.Create2(w, w.FilePaths(), nil, SchedSpec{})
	r.noPanic(cre)
	if cre.Err != nil {
		r.Violate("create-failed", "Create failed: %v", cre.Err)
	}
	w.RecordCreated(r, cre)
	// lose the recovery file holding exponents 1 and 2
	for p, e := range w.Exps {
		if len(e) == 2 && e[0] == 1 {
			w.Disk.Remove(p)
			r.Logf("recovery file %s lost (exponents %v)", p, e)
		}
	}
	// damage the three pattern slices and a fourth one
	fourth := t.Draw(w.N, "fourth")
	cols := []int{tri[0], tri[1], tri[2], fourth}
	cur := append([]byte(nil), data...)
	for _, c := range cols {
		o := c * S
		if o < len(cur) {
			cur[o] ^= 0x5a
		}
	}
	w.Disk.Put(w.Path(0), cur)
	r.Logf("pivot-stress S=%d N=%d surviving exponents start %v, damaged slices %v (leading 3x3 minor vanishes)", S, w.N, exps, cols)
	r.Probe("zero-leading-minor")
	tr := w.TruthPar2()
	rep := r.Repair2(w, w.Index, w.G, t.Bool(1, 2, "dc"), nil, SchedSpec{})
	r.noPanic(rep)
	r.oracleRepair2(w, rep, tr)
	r.Class = fmt.Sprintf("pivot S=%d N=%d pattern=%v", S, w.N, tri)
	r.Nontriv = premiseRepair2(tr)
}
