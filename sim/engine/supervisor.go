package engine

import (
	"bufio"
	"encoding/json"
	"fmt"
	"hash/fnv"
	"io"
	"os"
	"os/exec"
	"path/filepath"
	"sort"
	"strings"
	"sync"
	"time"

	"verifsim/tape"
)

// Job is one run of a check: a profile and its local index (sweep case
// or seeded run).
type Job struct {
	Profile *Profile
	Local   int
	Key     float64
}

func profileSeedSalt(name string) uint64 {
	h := fnv.New64a()
	h.Write([]byte(name))
	return h.Sum64()
}

// JobSeed is the run seed of a job.
func JobSeed(base uint64, j Job) uint64 {
	return tape.Mix(base^profileSeedSalt(j.Profile.Name), uint64(j.Local))
}

// Jobs lists the runs of a property's check for a tier, interleaved so
// that a time cap cuts all profiles proportionally.
func Jobs(prop, tier string, scale float64) []Job {
	var jobs []Job
	for _, p := range ProfilesFor(prop) {
		n := p.Quick
		if tier == "thorough" {
			n = p.Thorough
		}
		n = int(float64(n) * scale)
		sweep := 0
		if p.Sweep != nil {
			sweep = p.Sweep(tier)
		}
		total := sweep + n
		for i := 0; i < total; i++ {
			jobs = append(jobs, Job{p, i, (float64(i) + 0.5) / float64(total)})
		}
	}
	sort.SliceStable(jobs, func(a, b int) bool { return jobs[a].Key < jobs[b].Key })
	return jobs
}

// ChildMain is the body of a worker process: it runs jobs k, k+n, ...
// and prints one "S <j>" line before and one "R <json>" line after each.
func ChildMain(prop, tier string, base uint64, worker, of, from int, scale float64, deadline time.Time, hang time.Duration, out io.Writer) {
	jobs := Jobs(prop, tier, scale)
	w := bufio.NewWriter(out)
	samples := 0
	for j := worker; j < len(jobs); j += of {
		if j < from {
			continue
		}
		if time.Now().After(deadline) {
			fmt.Fprintf(w, "CUT %d\n", j)
			break
		}
		job := jobs[j]
		fmt.Fprintf(w, "S %d\n", j)
		w.Flush()
		seed := JobSeed(base, job)
		res := Execute(job.Profile, tier, seed, tape.New(seed), job.Local, hang)
		res.Index = j
		keepTrace := res.Viol != nil || len(res.Known) > 0 || res.Infra != "" || (samples < 2 && res.Nontriv)
		if keepTrace && res.Viol == nil && res.Infra == "" {
			samples++
		}
		if !keepTrace {
			res.Trace = nil
		}
		if res.Viol == nil {
			res.Tape = nil
			res.Frames = nil
		}
		b, _ := json.Marshal(res)
		fmt.Fprintf(w, "R %s\n", b)
		w.Flush()
		if res.Viol != nil && res.Viol.Kind == "hang" {
			// the stuck goroutine may still hold the scheduler; a fresh
			// process is the only clean state
			fmt.Fprintf(w, "RESTART %d\n", j+of)
			w.Flush()
			os.Exit(0)
		}
	}
	fmt.Fprintf(w, "DONE\n")
	w.Flush()
}

// childStartProcs: GOMAXPROCS environment of worker process k (0 = inherit).
var childStartProcs = []int{0, 3, 6, 1, 12, 5, 2, 7, 0, 9, 4, 10, 0, 3, 6, 8}

// CheckConfig configures a supervisor run.
type CheckConfig struct {
	Prop      string
	Tier      string
	Base      uint64
	Procs     int
	Budget    time.Duration
	Root      string // /verif
	Out       string // where evidence/ and replays/ are written (default Root)
	Exe       string
	Scale     float64
	Hang      time.Duration
	ShrinkFor time.Duration
}

type agg struct {
	mu         sync.Mutex
	evals      int
	classes    map[string]int
	nontriv    map[string]bool
	stats      map[string]int
	events     int
	draws      int
	samples    []map[string]interface{}
	viols      []Result
	known      map[string]int
	knownEx    map[string]string
	infra      []string
	perProfile map[string]int
	schedHash  map[uint64]bool
	states     map[uint64]bool
	sweepRun   int
	trans      map[uint64]bool
	firstSeed  uint64
	lastSeed   uint64
	cut        bool
	wallUS     int64
	slowest    []map[string]interface{} // the few slowest runs (profile, seed, class, wall)
}

// Check runs a property's check and returns the process exit status.
func Check(cfg CheckConfig) int {
	start := time.Now()
	if len(ProfilesFor(cfg.Prop)) == 0 {
		fmt.Printf("no profiles for property %s\n", cfg.Prop)
		return 2
	}
	fmt.Printf("verifsim check property=%s tier=%s VERIF_SEED=%d procs=%d budget=%v\n", cfg.Prop, cfg.Tier, cfg.Base, cfg.Procs, cfg.Budget)
	jobs := Jobs(cfg.Prop, cfg.Tier, cfg.Scale)
	a := &agg{classes: map[string]int{}, nontriv: map[string]bool{}, stats: map[string]int{}, known: map[string]int{}, knownEx: map[string]string{}, perProfile: map[string]int{}, schedHash: map[uint64]bool{}, states: map[uint64]bool{}, trans: map[uint64]bool{}}
	deadline := start.Add(cfg.Budget)
	stop := make(chan struct{})
	var stopOnce sync.Once
	var wg sync.WaitGroup
	for k := 0; k < cfg.Procs; k++ {
		wg.Add(1)
		go func(k int) {
			defer wg.Done()
			from := 0
			for restarts := 0; restarts < 50; restarts++ {
				next, again := superviseChild(cfg, k, from, deadline, a, jobs, stop, func() { stopOnce.Do(func() { close(stop) }) })
				if !again {
					return
				}
				from = next
			}
		}(k)
	}
	wg.Wait()
	wall := time.Since(start)

	exit := 0
	if len(a.infra) > 0 {
		for _, s := range a.infra {
			fmt.Printf("INFRASTRUCTURE: %s\n", s)
		}
		exit = 2
	}
	// known findings: one line per listed finding that was hit
	var kids []string
	for id := range a.known {
		kids = append(kids, id)
	}
	sort.Strings(kids)
	for _, id := range kids {
		what := id
		for _, k := range KnownOpen() {
			if k.ID == id {
				what = k.ID + " " + k.What
			}
		}
		fmt.Printf("KNOWN-FINDING: property=%s %s (hit in %d runs; e.g. %s)\n", cfg.Prop, what, a.known[id], a.knownEx[id])
	}
	// violations: minimise and report the first of each kind
	reported := map[string]bool{}
	nviol := 0
	var replays []string
	for _, v := range a.viols {
		if reported[v.Viol.Kind] || len(reported) >= 2 {
			continue
		}
		reported[v.Viol.Kind] = true
		nviol++
		path := minimiseAndWrite(cfg, v)
		replays = append(replays, path)
		fmt.Printf("VIOLATION property=%s replay=%s\n", cfg.Prop, path)
		fmt.Printf("  kind=%s detail=%s\n", v.Viol.Kind, v.Viol.Detail)
	}
	if nviol > 0 {
		exit = 1
	}
	if err := writeEvidence(cfg, a, wall, len(a.viols), len(jobs), replays); err != nil {
		fmt.Printf("INFRASTRUCTURE: cannot write evidence: %v\n", err)
		if exit == 0 {
			exit = 2
		}
	}
	fmt.Printf("property=%s tier=%s runs=%d/%d distinct_nontrivial=%d events=%d violations=%d known_hits=%d wall=%.1fs exit=%d\n",
		cfg.Prop, cfg.Tier, a.evals, len(jobs), len(a.nontriv), a.events, len(a.viols), len(a.known), wall.Seconds(), exit)
	return exit
}

func superviseChild(cfg CheckConfig, k, from int, deadline time.Time, a *agg, jobs []Job, stop chan struct{}, doStop func()) (next int, again bool) {
	select {
	case <-stop:
		return 0, false
	default:
	}
	cmd := exec.Command(cfg.Exe, "child", "-prop", cfg.Prop, "-tier", cfg.Tier, "-base", fmt.Sprint(cfg.Base), "-worker", fmt.Sprint(k), "-of", fmt.Sprint(cfg.Procs),
		"-from", fmt.Sprint(from), "-scale", fmt.Sprint(cfg.Scale), "-deadline", fmt.Sprint(deadline.UnixNano()/1e6), "-hang", cfg.Hang.String(), "-root", cfg.Root)
	// worker processes are started with different GOMAXPROCS values
	// (package initialisation may look at it); within a run the value is
	// then set from the tape
	if sp := childStartProcs[k%len(childStartProcs)]; sp > 0 {
		cmd.Env = append(os.Environ(), fmt.Sprintf("GOMAXPROCS=%d", sp))
	}
	stdout, _ := cmd.StdoutPipe()
	var stderr strings.Builder
	cmd.Stderr = &limitedWriter{w: &stderr, n: 1 << 16}
	if err := cmd.Start(); err != nil {
		a.mu.Lock()
		a.infra = append(a.infra, "cannot start child: "+err.Error())
		a.mu.Unlock()
		return 0, false
	}
	killed := false
	go func() {
		<-stop
		killed = true
		cmd.Process.Kill()
	}()
	inflight := -1
	finished := false
	restartAt := -1
	sc := bufio.NewScanner(stdout)
	sc.Buffer(make([]byte, 1<<20), 64<<20)
	for sc.Scan() {
		line := sc.Text()
		switch {
		case strings.HasPrefix(line, "S "):
			fmt.Sscanf(line, "S %d", &inflight)
		case strings.HasPrefix(line, "R "):
			var res Result
			if err := json.Unmarshal([]byte(line[2:]), &res); err != nil {
				a.mu.Lock()
				a.infra = append(a.infra, "bad result line from child: "+err.Error())
				a.mu.Unlock()
				continue
			}
			inflight = -1
			a.add(res, jobs)
			if res.Viol != nil {
				doStop()
			}
		case strings.HasPrefix(line, "CUT"):
			a.mu.Lock()
			a.cut = true
			a.mu.Unlock()
		case strings.HasPrefix(line, "RESTART "):
			fmt.Sscanf(line, "RESTART %d", &restartAt)
		case line == "DONE":
			finished = true
		}
	}
	err := cmd.Wait()
	if killed {
		return 0, false
	}
	if finished {
		return 0, false
	}
	if restartAt >= 0 {
		return restartAt, true
	}
	if inflight >= 0 {
		// the child died inside run `inflight`: an unrecovered panic or
		// fatal error in some goroutine of the system under test
		job := jobs[inflight]
		seed := JobSeed(cfg.Base, job)
		res := Result{Index: inflight, Seed: seed, Profile: job.Profile.Name, Prop: cfg.Prop,
			Viol: &Violation{Property: cfg.Prop, Kind: "child-died", Detail: fmt.Sprintf("process died during the run (%v): %s", err, lastLines(stderr.String(), 12))}}
		a.mu.Lock()
		a.viols = append(a.viols, res)
		a.mu.Unlock()
		doStop()
		return 0, false
	}
	a.mu.Lock()
	a.infra = append(a.infra, fmt.Sprintf("child %d exited unexpectedly (%v): %s", k, err, lastLines(stderr.String(), 6)))
	a.mu.Unlock()
	return 0, false
}

type limitedWriter struct {
	w io.Writer
	n int
}

func (l *limitedWriter) Write(p []byte) (int, error) {
	if l.n > 0 {
		q := p
		if len(q) > l.n {
			q = q[:l.n]
		}
		l.w.Write(q)
		l.n -= len(q)
	}
	return len(p), nil
}

func lastLines(s string, n int) string {
	lines := strings.Split(strings.TrimSpace(s), "\n")
	// the head of a Go panic is the informative part
	if len(lines) > n {
		lines = lines[:n]
	}
	return strings.Join(lines, " | ")
}

func (a *agg) add(res Result, jobs []Job) {
	a.mu.Lock()
	defer a.mu.Unlock()
	a.evals++
	a.events += res.Events
	a.draws += res.Draws
	a.wallUS += res.WallUS
	if n := len(a.slowest); n < 3 || res.WallUS > a.slowest[n-1]["wall_us"].(int64) {
		a.slowest = append(a.slowest, map[string]interface{}{"profile": res.Profile, "seed": fmt.Sprint(res.Seed), "class": res.Class, "wall_us": res.WallUS})
		sort.SliceStable(a.slowest, func(i, j int) bool { return a.slowest[i]["wall_us"].(int64) > a.slowest[j]["wall_us"].(int64) })
		if len(a.slowest) > 3 {
			a.slowest = a.slowest[:3]
		}
	}
	a.perProfile[res.Profile]++
	if res.Sweep {
		a.sweepRun++
	}
	if a.evals == 1 {
		a.firstSeed = res.Seed
	}
	a.lastSeed = res.Seed
	for k, v := range res.Stats {
		if strings.HasPrefix(k, "max:") {
			if v > a.stats[k] {
				a.stats[k] = v
			}
			continue
		}
		a.stats[k] += v
	}
	if res.Class != "" {
		a.classes[res.Profile+"|"+res.Class]++
		if res.Nontriv {
			a.nontriv[res.Profile+"|"+res.Class] = true
		}
	}
	if res.Sched != 0 && res.Stats["sched:releases"] > 0 {
		a.schedHash[res.Sched] = true
	}
	for _, x := range res.States {
		a.states[x] = true
	}
	for _, x := range res.Trans {
		a.trans[x] = true
	}
	for id, n := range res.Known {
		a.known[id] += n
		if _, ok := a.knownEx[id]; !ok {
			for _, l := range res.Trace {
				if strings.HasPrefix(l, "known-finding "+id) {
					a.knownEx[id] = fmt.Sprintf("seed %d: %s", res.Seed, l)
					break
				}
			}
		}
	}
	if res.Infra != "" {
		a.infra = append(a.infra, fmt.Sprintf("profile %s seed %d: %s", res.Profile, res.Seed, res.Infra))
	}
	if res.Viol != nil {
		a.viols = append(a.viols, res)
	} else if res.Infra == "" && len(res.Trace) > 0 && len(a.samples) < 4 {
		tr := res.Trace
		if len(tr) > 80 {
			tr = append(append([]string(nil), tr[:60]...), fmt.Sprintf("... (%d more events)", len(res.Trace)-60))
		}
		a.samples = append(a.samples, map[string]interface{}{"profile": res.Profile, "seed": res.Seed, "class": res.Class, "trace": tr})
	}
}

// ReplayFile is the on-disk form of a minimised violation.
type ReplayFile struct {
	Confirmed  bool      `json:"reproduced_in_fresh_process"`
	StartProcs int       `json:"start_gomaxprocs,omitempty"`
	Property   string    `json:"property"`
	Profile    string    `json:"profile"`
	Tier       string    `json:"tier"`
	BaseSeed   uint64    `json:"base_seed"`
	RunSeed    uint64    `json:"run_seed"`
	Index      int       `json:"job_index"`
	Local      int       `json:"local_index"`
	Violation  Violation `json:"violation"`
	Tape       []uint64  `json:"tape"`
	OrigDraws  int       `json:"original_draws"`
	Tries      int       `json:"shrink_tries"`
	ReplayMode string    `json:"replay_mode"`
	Trace      []string  `json:"trace"`
}

// SubprocRunner runs one tape in a fresh process.
func SubprocRunner(exe, root string, p *Profile, tier string, seed uint64, local int, hang time.Duration) Runner {
	return SubprocRunnerProcs(exe, root, p, tier, seed, local, hang, 0)
}

// SubprocRunnerProcs is SubprocRunner with the GOMAXPROCS environment
// of the fresh process set (0 = inherit).
func SubprocRunnerProcs(exe, root string, p *Profile, tier string, seed uint64, local int, hang time.Duration, startProcs int) Runner {
	return func(vals []uint64) Result {
		f, err := os.CreateTemp("", "verifsim-tape-")
		if err != nil {
			return Result{Infra: err.Error()}
		}
		defer os.Remove(f.Name())
		json.NewEncoder(f).Encode(vals)
		f.Close()
		cmd := exec.Command(exe, "one", "-profile", p.Name, "-tier", tier, "-seed", fmt.Sprint(seed), "-local", fmt.Sprint(local), "-tape", f.Name(), "-hang", hang.String(), "-root", root)
		if startProcs > 0 {
			cmd.Env = append(os.Environ(), fmt.Sprintf("GOMAXPROCS=%d", startProcs))
		}
		var stderr strings.Builder
		cmd.Stderr = &limitedWriter{w: &stderr, n: 1 << 16}
		out, err := cmd.Output()
		var res Result
		if i := strings.LastIndex(string(out), "\nR "); i >= 0 || strings.HasPrefix(string(out), "R ") {
			s := string(out)
			if i >= 0 {
				s = s[i+1:]
			}
			s = strings.TrimSpace(s[2:])
			if json.Unmarshal([]byte(s), &res) == nil {
				return res
			}
		}
		// no result line: the process died
		return Result{Seed: seed, Profile: p.Name, Prop: p.Prop, Draws: len(vals), Tape: vals,
			Viol: &Violation{Property: p.Prop, Kind: "child-died", Detail: fmt.Sprintf("process died during the run (%v): %s", err, lastLines(stderr.String(), 12))}}
	}
}

func minimiseAndWrite(cfg CheckConfig, v Result) string {
	p := ProfileByName(v.Profile)
	jobs := Jobs(cfg.Prop, cfg.Tier, cfg.Scale)
	local := -1
	if v.Index >= 0 && v.Index < len(jobs) {
		local = jobs[v.Index].Local
	}
	var run Runner
	slow := v.Viol.Kind == "child-died" || v.Viol.Kind == "hang"
	budget := cfg.ShrinkFor
	if v.Viol.Kind == "hang" {
		// a run that exceeded the watchdog is reported as it was found:
		// re-running it (let alone dozens of smaller variants) under a
		// shorter watchdog could turn a merely slow candidate into a
		// "reproduced" hang
		budget = 0
	}
	if slow {
		// one fresh process per candidate; a reproducing hang costs the
		// whole watchdog each time, so use a short one while minimising
		h := cfg.Hang

		if budget > 60*time.Second {
			budget = 60 * time.Second
		}
		run = SubprocRunnerProcs(cfg.Exe, cfg.Root, p, cfg.Tier, v.Seed, local, h, v.StartProcs)
	} else {
		run = InProcRunner(p, cfg.Tier, v.Seed, local, cfg.Hang)
	}
	vals := v.Tape
	if vals == nil {
		// child died: regenerate the tape from the seed by running it in
		// a fresh process is not possible (it dies); use the generating
		// tape directly and let the runner record what it can
		vals = regenerate(v.Seed)
	}
	var best []uint64
	var res Result
	tries := 0
	if budget > 0 {
		best, res, tries = Shrink(run, vals, v.Viol.Property, v.Viol.Kind, budget)
	} else {
		best, res = vals, v
	}
	if !slow && (res.Viol == nil || res.Viol.Kind != v.Viol.Kind) && v.StartProcs != StartProcs {
		// not reproducible in this process: the violation may depend on
		// the GOMAXPROCS the worker process was started with
		slow = true
		b2 := budget
		if b2 > 60*time.Second {
			b2 = 60 * time.Second
		}
		run = SubprocRunnerProcs(cfg.Exe, cfg.Root, p, cfg.Tier, v.Seed, local, cfg.Hang, v.StartProcs)
		best, res, tries = Shrink(run, vals, v.Viol.Property, v.Viol.Kind, b2)
	}
	viol := v.Viol
	trace := v.Trace
	if res.Viol != nil && res.Viol.Kind == v.Viol.Kind {
		viol = res.Viol
		trace = res.Trace
	} else {
		best = vals
	}
	// the replay file must reproduce in a fresh process: confirm it
	confirmed := false
	if !slow {
		chk := SubprocRunnerProcs(cfg.Exe, cfg.Root, p, cfg.Tier, v.Seed, local, cfg.Hang, v.StartProcs)(best)
		confirmed = chk.Viol != nil && chk.Viol.Kind == viol.Kind
		if !confirmed && len(best) != len(vals) {
			// fall back to the unminimised tape
			chk = SubprocRunnerProcs(cfg.Exe, cfg.Root, p, cfg.Tier, v.Seed, local, cfg.Hang, v.StartProcs)(vals)
			if chk.Viol != nil && chk.Viol.Kind == viol.Kind {
				best, confirmed = vals, true
				trace = chk.Trace
			}
		}
	} else {
		confirmed = res.Viol != nil && res.Viol.Kind == v.Viol.Kind
	}
	rf := ReplayFile{Confirmed: confirmed, StartProcs: v.StartProcs, Property: cfg.Prop, Profile: v.Profile, Tier: cfg.Tier, BaseSeed: cfg.Base, RunSeed: v.Seed, Index: v.Index, Local: local,
		Violation: *viol, Tape: best, OrigDraws: v.Draws, Tries: tries, ReplayMode: "exact", Trace: trace}
	if strings.HasPrefix(viol.Kind, "outputs-differ") && strings.Contains(viol.Detail, "repeat") {
		rf.ReplayMode = "repeat-until-divergence"
	}
	dir := filepath.Join(cfg.Out, "replays")
	os.MkdirAll(dir, 0755)
	path := filepath.Join(dir, fmt.Sprintf("%s-%d-%s.json", cfg.Prop, v.Seed, viol.Kind))
	b, _ := json.MarshalIndent(rf, "", " ")
	os.WriteFile(path, b, 0644)
	return path
}

// regenerate returns a long prefix of the generating tape of a seed
// (raw 64-bit values; Draw reduces them modulo n again on replay).
func regenerate(seed uint64) []uint64 {
	t := tape.New(seed)
	out := make([]uint64, 20000)
	for i := range out {
		out[i] = t.Draw64(0, "")
	}
	return out
}

// Replay re-executes a replay file in a fresh process and reports.
func Replay(exe, root, path string, hang time.Duration) int {
	b, err := os.ReadFile(path)
	if err != nil {
		fmt.Printf("replay: %v\n", err)
		return 2
	}
	var rf ReplayFile
	if err := json.Unmarshal(b, &rf); err != nil {
		fmt.Printf("replay: %v\n", err)
		return 2
	}
	p := ProfileByName(rf.Profile)
	if p == nil {
		fmt.Printf("replay: unknown profile %s\n", rf.Profile)
		return 2
	}
	run := SubprocRunnerProcs(exe, root, p, rf.Tier, rf.RunSeed, rf.Local, hang, rf.StartProcs)
	tries := 1
	if rf.ReplayMode == "repeat-until-divergence" {
		tries = 64
	}
	var res Result
	for i := 0; i < tries; i++ {
		res = run(rf.Tape)
		if res.Viol != nil {
			break
		}
	}
	for _, l := range res.Trace {
		fmt.Println("  " + l)
	}
	if res.Infra != "" {
		fmt.Printf("INFRASTRUCTURE: %s\n", res.Infra)
		return 2
	}
	if res.Viol == nil {
		fmt.Printf("replay passed: the recorded violation %s/%s does not occur on the current tree\n", rf.Violation.Property, rf.Violation.Kind)
		return 0
	}
	if res.Viol.Kind == rf.Violation.Kind {
		fmt.Printf("REPRODUCED %s\n", res.Viol.String())
	} else {
		fmt.Printf("DIFFERENT violation on replay: %s (recorded: %s)\n", res.Viol.String(), rf.Violation.Kind)
	}
	fmt.Printf("VIOLATION property=%s replay=%s\n", rf.Property, path)
	return 1
}
