package engine

import (
	"encoding/json"
	"fmt"
	"os"
	"os/exec"
	"strings"
	"sync"
	"time"
)

// SelfTest is the determinism self-test: every sampled (profile, seed)
// is executed in three fresh processes with GOMAXPROCS 1, 4 and 16 and
// the digests of the full event log must agree. A difference is an
// infrastructure failure (exit 2), never a violation.
func SelfTest(exe, root, prop string, n int) int {
	var ps []*Profile
	for _, p := range profiles {
		if prop == "" || p.Prop == prop {
			ps = append(ps, p)
		}
	}
	type job struct {
		p    *Profile
		seed uint64
		loc  int
	}
	var jobs []job
	for _, p := range ps {
		sweep := 0
		if p.Sweep != nil {
			sweep = p.Sweep("quick")
		}
		for i := 0; i < n; i++ {
			loc := -1
			if i < sweep && i < n/4 {
				loc = i * (sweep/(n/4+1) + 1) % sweep
			}
			jobs = append(jobs, job{p, 1000003*uint64(i+1) + profileSeedSalt(p.Name)%1000, loc})
		}
	}
	start := time.Now()
	var mu sync.Mutex
	bad := 0
	runs := 0
	sem := make(chan struct{}, 12)
	var wg sync.WaitGroup
	for _, j := range jobs {
		wg.Add(1)
		sem <- struct{}{}
		go func(j job) {
			defer wg.Done()
			defer func() { <-sem }()
			var sig []string
			for _, procs := range []string{"1", "4", "16"} {
				cmd := exec.Command(exe, "one", "-profile", j.p.Name, "-seed", fmt.Sprint(j.seed), "-local", fmt.Sprint(j.loc), "-root", root)
				cmd.Env = append(os.Environ(), "GOMAXPROCS="+procs)
				out, err := cmd.Output()
				s := strings.TrimSpace(string(out))
				var res Result
				if i := strings.LastIndex(s, "R {"); i >= 0 {
					json.Unmarshal([]byte(s[i+2:]), &res)
				}
				v := ""
				if res.Viol != nil {
					v = res.Viol.Kind
				}
				sig = append(sig, fmt.Sprintf("%s/%d/%d/%s/%s/%016x/%v/%s", res.Digest, res.Events, res.Draws, res.Class, v, res.Sched, err, res.Infra))
			}
			mu.Lock()
			runs += 3
			if sig[0] != sig[1] || sig[1] != sig[2] {
				bad++
				fmt.Printf("NONDETERMINISM profile=%s seed=%d local=%d\n  1: %s\n  4: %s\n 16: %s\n", j.p.Name, j.seed, j.loc, sig[0], sig[1], sig[2])
			}
			mu.Unlock()
		}(j)
	}
	wg.Wait()
	fmt.Printf("selftest: %d profiles x %d seeds x 3 processes (GOMAXPROCS 1/4/16) = %d runs, %d divergent, %.1fs\n", len(ps), n, runs, bad, time.Since(start).Seconds())
	if bad > 0 {
		return 2
	}
	return 0
}
