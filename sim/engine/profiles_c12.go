package engine

import (
	"bytes"
	"fmt"
	"os"
	"os/exec"
	"runtime"
	"strings"

	"github.com/akalin/gopar/gf2p16"
	"github.com/akalin/gopar/rsec16"

	"verifsim/sched"
)

func init() {
	Register(&Profile{Name: "coder-schedules", Prop: "C12", Weight: 10, Quick: 12000, Thorough: 400000, Fn: coderSchedules})
	Register(&Profile{Name: "par2-goroutine-invariance", Prop: "C12", Weight: 3, Quick: 1500, Thorough: 40000, Fn: par2GoroutineInvariance})
	Register(&Profile{Name: "coder-race-batch", Prop: "C12", Weight: 1, Quick: 16, Thorough: 300, Fn: coderRaceBatch})
	Register(&Profile{Name: "coder-free-long", Prop: "C12", Weight: 2, Quick: 320, Thorough: 12000, Fn: coderFreeLong})
	Register(&Profile{Name: "coder-free", Prop: "C12-internal", Weight: 0, Fn: func(r *Run) {
		if r.T.Bool(2, 3, "portable-kernels") {
			// hook H3: with the portable kernels, every memory access of
			// the coder is made by Go code and seen by the race detector
			old := gf2p16.VerifSetPortable(true)
			defer gf2p16.VerifSetPortable(old)
			r.Probe("portable-kernels")
		}
		coderFree(r, 30)
		par2Free(r, 2)
	}})
	SetMeta("C12", &Meta{
		Level: "exploration",
		Rule:  "coder-schedules: seeded (coder kind, data/parity shard counts, even shard length, goroutine count, erasure set) with every release of a parked worker drawn from the tape; a case is non-trivial when a parallel region with >= 2 workers was driven, distinct by (shard length, workers spawned, strategy, operation, schedule hash). par2-goroutine-invariance: whole Create/Repair on the simulated disk across goroutine counts under driven schedules. coder-race-batch: the same coder workloads free-running in a -race build (in two thirds of the batch with the portable Go kernels selected through hook H3, so that the race detector sees every access of the coder).",
		Assumptions: []string{
			"the yield points of hook H2 sit before every kernel call, so interleavings are explored at kernel-call granularity; interleavings inside one kernel call are not explored (kernels of different workers touch disjoint bytes iff the logical range check passes)",
			"all workers of one parallel region are mutually concurrent (no synchronisation between spawn and join), so pairwise disjointness of their write ranges plus full coverage is a complete race check for the shared output shards",
			"goroutine identity is the address of the runtime g (read by a 3-instruction assembly stub)",
			"the race-detector batch sees the kernels' memory accesses only in the runs that select the portable kernels (hook H3); the assembly kernels are then not the code that runs",
		},
		ProbesWant: []string{"len<16*workers", "len-not-multiple-of-16", "workers>units", "reconstruct-under-schedule", "vandermonde-singular-same-as-single", "shard>=64KiB"},
	})
}

var coderLens = []int{2, 4, 14, 16, 18, 30, 32, 34, 46, 48, 62, 64, 66, 96, 100, 126, 128, 130, 1000, 2000, 4098, 4100, 8196, 12292, 16388}

func genShards(r *Run, n, length int) [][]byte {
	g := prng{s: r.T.Draw64(0, "shard-seed")}
	structured := r.T.Bool(1, 4, "structured-shards")
	out := make([][]byte, n)
	for i := range out {
		out[i] = make([]byte, length)
		kind := 0
		if structured {
			kind = int(g.next() % 7)
		}
		switch kind {
		case 0:
			for k := range out[i] {
				out[i][k] = byte(g.next())
			}
		case 1: // all zero
		case 2: // one repeated 16-bit word, low or high byte possibly zero
			lo, hi := byte(g.next()), byte(g.next())
			if g.next()%2 == 0 {
				lo = 0
			}
			for k := range out[i] {
				if k%2 == 0 {
					out[i][k] = lo
				} else {
					out[i][k] = hi
				}
			}
		case 5, 6: // (data,) a long run of zeros, a short non-zero trailer at the very end
			if kind == 6 {
				for k := 0; k < length/2; k++ {
					out[i][k] = byte(g.next())
				}
			}
			tl := 2 * (1 + int(g.next()%7))
			for k := length - tl; k < length; k++ {
				if k >= 0 {
					out[i][k] = byte(1 + g.next()%255)
				}
			}
		default: // runs of words and random stretches
			copy(out[i], expandContent(ckWordRuns, g.next(), length, 16))
		}
	}
	if structured {
		r.Probe("structured-shards")
	}
	return out
}

func cloneShards(s [][]byte) [][]byte {
	out := make([][]byte, len(s))
	for i, x := range s {
		if x != nil {
			out[i] = append([]byte(nil), x...)
		}
	}
	return out
}

// coderOp runs fn with the scheduler in the given mode and returns the
// controller's violations plus a recovered panic.
func (r *Run) coderOp(name string, spec SchedSpec, fn func()) (viol []sched.Violation, pan string) {
	r.Sched.Take()
	r.armSched(spec)
	func() {
		defer func() {
			if x := recover(); x != nil {
				if vp, ok := x.(violationPanic); ok {
					panic(vp)
				}
				if ks, ok := x.(knownStop); ok {
					panic(ks)
				}
				pan = fmt.Sprint(x)
			}
		}()
		fn()
	}()
	r.Sched.SetMode(sched.Off)
	viol = r.Sched.Take()
	return
}

func (r *Run) reportSched(op string, vs []sched.Violation, pan string) {
	for _, v := range vs {
		r.Violate(v.Kind, "%s: %s", op, v.Detail)
	}
	if pan != "" {
		r.Violate("panic", "%s panicked: %s", op, pan)
	}
}

func coderSchedules(r *Run) {
	t := r.T
	kind := t.Draw(2, "coder")
	d := 1 + t.Draw(12, "data-shards")
	p := 1 + t.Draw(8, "parity-shards")
	length := coderLens[t.Draw(len(coderLens), "len")]
	if t.Bool(1, 4, "odd-len") {
		length = 2 * (1 + t.Draw(160, "len2"))
	}
	big := false
	if t.Bool(1, 25, "long-shards") {
		// shards far beyond any cache-blocking threshold
		length = []int{65536, 65538, 65540, 70000, 131072, 204800, 1 << 20}[t.Draw(7, "long-len")]
		d = 1 + t.Draw(4, "long-d")
		p = 1 + t.Draw(3, "long-p")
		big = true
		r.Probe("shard>=64KiB")
	}
	manyTiny := false
	if !big && t.Bool(1, 40, "many-tiny-shards") {
		d = 200 + t.Draw(2000, "many-d")
		p = 1 + t.Draw(3, "many-p")
		length = 2 * (1 + t.Draw(31, "tiny-len"))
		manyTiny = true
		r.Probe("data-shards>=200")
	}
	divisorApart := 0
	if !big && !manyTiny && kind == 1 && t.Bool(1, 40, "parity-rows-a-divisor-apart") {
		// reconstruction from two parity rows whose exponents differ by a
		// divisor of 65535: slice constants coincide in the higher row, the
		// reconstruction matrix gets zero coefficients (which never happens
		// with rows 0,1,2,...)
		divisorApart = []int{21845, 13107, 4369}[t.Draw(3, "divisor")]
		d = 3 + t.Draw(6, "div-d")
		p = divisorApart + 1
		length = []int{32, 34, 48, 64, 100, 256}[t.Draw(6, "div-len")]
		r.Probe("parity-rows-a-divisor-of-65535-apart")
	}
	units := (length + 15) / 16
	gmax := units + 3
	if gmax > 260 {
		// (driving a thousand workers is slow and adds nothing over a few hundred)
		gmax = 260
	}
	g := 1 + t.Draw(gmax, "goroutines")
	if manyTiny {
		g = 2 + t.Draw(15, "many-g")
	}
	if big {
		g = []int{2, 3, 4, 8, 16, 64}[t.Draw(6, "long-g")]
	}
	if t.Bool(1, 10, "many-goroutines") {
		g = []int{16, 31, 64, 200, 65535, 65536, 65537, 1 << 20, 1 << 31}[t.Draw(9, "g-many")]
		if g > 200 && units > 256 {
			// (a worker per 16-byte unit: keep the number of driven workers moderate)
			g = 200
		}
	}
	if g > units {
		r.Probe("workers>units")
	}
	if length < 16*g {
		r.Probe("len<16*workers")
	}
	if length%16 != 0 {
		r.Probe("len-not-multiple-of-16")
	}
	coders := map[int]rsec16.Coder{}
	fresh := t.Bool(1, 2, "fresh-coder-per-call")
	mk := func(g int) rsec16.Coder {
		// half of the runs reuse one Coder value for all calls with the
		// same goroutine count (a Coder is documented as an immutable
		// value; state leaking between calls would show here)
		if c, ok := coders[g]; ok && !fresh {
			return c
		}
		c := mk0(r, kind, d, p, g)
		coders[g] = c
		return c
	}
	_ = mk
	mkOld := func(g int) rsec16.Coder {
		var c rsec16.Coder
		var err error
		if kind == 0 {
			c, err = rsec16.NewCoderCauchy(d, p, g)
		} else {
			c, err = rsec16.NewCoderPAR2Vandermonde(d, p, g)
		}
		if err != nil {
			r.Violate("coder-construction", "new coder(%d,%d,%d): %v", d, p, g, err)
		}
		return c
	}
	_ = mkOld
	kindName := []string{"cauchy", "par2-vandermonde"}[kind]
	data := genShards(r, d, length)
	spec := SchedSpec{Mode: sched.Drive, Strategy: t.Draw(stratCount, "strategy")}
	if t.Bool(1, 8, "record-only") {
		spec = SchedSpec{Mode: sched.Record}
	}
	r.Logf("coder %s d=%d p=%d len=%d g=%d sched=%v/%s", kindName, d, p, length, g, spec.Mode, stratNames[spec.Strategy])

	// reference: single goroutine, scheduler off
	var want [][]byte
	_, pan := r.coderOp("generate-single", SchedSpec{}, func() { want = mk(1).GenerateParity(cloneShards(data)) })
	if pan != "" {
		r.Violate("panic", "single-goroutine GenerateParity panicked: %s", pan)
	}
	// under schedule
	var got [][]byte
	in := cloneShards(data)
	vs, pan := r.coderOp("generate", spec, func() { got = mk(g).GenerateParity(in) })
	r.reportSched(fmt.Sprintf("GenerateParity(%s d=%d p=%d len=%d g=%d)", kindName, d, p, length, g), vs, pan)
	r.Logf("generate regions=%d releases=%d hash=%016x", r.Sched.Stats.Regions, r.Sched.Stats.Releases, r.Sched.Stats.ScheduleHash)
	for i := range want {
		if !bytes.Equal(want[i], got[i]) {
			r.Violate("bytes-differ-from-single", "GenerateParity(%s d=%d p=%d len=%d g=%d): parity shard %d differs from the single-goroutine result at byte %d", kindName, d, p, length, g, i, firstDiff(want[i], got[i]))
		}
	}
	for i := range data {
		if !bytes.Equal(data[i], in[i]) {
			r.Violate("bytes-differ-from-single", "GenerateParity modified its input shard %d", i)
		}
	}

	// reconstruction under schedule
	nMissing := t.Draw(min(d, p)+1, "missing-data")
	if divisorApart > 0 {
		nMissing = 2
	}
	missing := map[int]bool{}
	for len(missing) < nMissing {
		missing[t.Draw(d, "which-missing")] = true
	}
	parity := cloneShards(want)
	if divisorApart > 0 {
		// keep rows 0 and d (and sometimes one more)
		keep := map[int]bool{0: true, divisorApart: true}
		if t.Bool(1, 2, "third-row") {
			keep[1+t.Draw(divisorApart-1, "third")] = true
		}
		for i := range parity {
			if !keep[i] {
				parity[i] = nil
			}
		}
	}
	// drop some parity shards but keep enough
	for i := range parity {
		if divisorApart > 0 {
			break
		}
		if len(parity)-countNil(parity) > nMissing && t.Bool(1, 3, "drop-parity") {
			parity[i] = nil
		}
	}
	dataS := cloneShards(data)
	dataG := cloneShards(data)
	for i := range missing {
		dataS[i] = nil
		dataG[i] = nil
	}
	var errS, errG error
	_, pan = r.coderOp("reconstruct-single", SchedSpec{}, func() { errS = mk(1).ReconstructData(dataS, cloneShards(parity)) })
	if pan != "" {
		r.Violate("panic", "single-goroutine ReconstructData panicked: %s", pan)
	}
	spec2 := spec
	if spec.Mode == sched.Drive {
		spec2.Strategy = t.Draw(stratCount, "strategy2")
	}
	vs, pan = r.coderOp("reconstruct", spec2, func() { errG = mk(g).ReconstructData(dataG, cloneShards(parity)) })
	op := fmt.Sprintf("ReconstructData(%s d=%d p=%d len=%d g=%d missing=%d)", kindName, d, p, length, g, nMissing)
	r.reportSched(op, vs, pan)
	if nMissing > 0 {
		r.Probe("reconstruct-under-schedule")
	}
	if (errS == nil) != (errG == nil) {
		r.Violate("bytes-differ-from-single", "%s: error %v with %d goroutines, %v with one", op, errG, g, errS)
	}
	if errS != nil {
		if kind == 1 {
			r.Probe("vandermonde-singular-same-as-single")
		}
	} else {
		for i := range dataS {
			if !bytes.Equal(dataS[i], dataG[i]) {
				r.Violate("bytes-differ-from-single", "%s: data shard %d differs from the single-goroutine result at byte %d", op, i, firstDiff(dataS[i], dataG[i]))
			}
			if kind == 0 && !bytes.Equal(dataS[i], data[i]) {
				r.Violate("bytes-differ-from-single", "%s: reconstructed shard %d differs from the original", op, i)
			}
		}
	}
	st := r.Sched.Stats
	r.Class = fmt.Sprintf("%s len=%d workers=%d strat=%s missing=%d hash=%016x", kindName, length, st.MaxWorkers, stratNames[spec.Strategy], nMissing, st.ScheduleHash)
	r.Nontriv = st.MaxWorkers >= 2 && spec.Mode == sched.Drive
	r.Count(fmt.Sprintf("shape:len=%d,g=%d", length, g))
}

func firstDiff(a, b []byte) int {
	for i := range a {
		if i >= len(b) || a[i] != b[i] {
			return i
		}
	}
	return len(a)
}

func countNil(s [][]byte) int {
	n := 0
	for _, x := range s {
		if x == nil {
			n++
		}
	}
	return n
}

func min(a, b int) int {
	if a < b {
		return a
	}
	return b
}

// par2GoroutineInvariance: Create and Repair on the simulated disk give
// identical bytes for every goroutine option, under driven schedules.
func par2GoroutineInvariance(r *Run) {
	t := r.T
	w := GenWorld(r, GenOpts{MaxFiles: 5, RandomOnly: true, SliceSizes: []int{16, 20, 64, 100, 256, 1024, 4096}})
	if t.Bool(1, 40, "multi-megabyte-file") {
		// inputs of several MiB (work may be split differently for them)
		size := (2 << 20) + t.Draw(2<<20, "mb-size")
		others := w.N - (len(w.Files[0].Data)+w.S-1)/w.S
		if room := 30000 - others; (size+w.S-1)/w.S > room {
			if room < 1 {
				room = 1
			}
			size = room*w.S - 3
		}
		data := expandContent(ckRandom, t.Draw64(0, "mb-seed"), size, 64)
		w.N += (size+w.S-1)/w.S - (len(w.Files[0].Data)+w.S-1)/w.S
		w.Files[0].Data = data
		w.Disk.Put(w.Path(0), data)
		r.Probe("file>=2MiB")
	}
	wantStale := t.Bool(1, 5, "stale-volume-and-gap")
	if wantStale && len(w.Files[0].Data) <= 16384 {
		// a file longer than 16 KiB: its later bytes can change without
		// changing the set id (see the stale-volume event below)
		size := 16385 + t.Draw(8192, "stale-size")
		data := expandContent(ckRandom, t.Draw64(0, "stale-seed"), size, 64)
		w.N += (size+w.S-1)/w.S - (len(w.Files[0].Data)+w.S-1)/w.S
		w.Files[0].Data = data
		w.Disk.Put(w.Path(0), data)
	}
	if wantStale && w.R < 6 {
		w.R = 6 + t.Draw(12, "stale-R")
	}
	// bound the work per run (every kernel call passes a yield point):
	// at most ~0.6 million (slice, recovery block) pairs
	if w.N*w.R > 600000 {
		w.R = 600000 / w.N
		if w.R < 1 {
			w.R = 1
		}
	}
	base := w.Disk.Clone()
	w.G = 1
	ref := r.Create2(w, w.FilePaths(), nil, SchedSpec{})
	r.noPanic(ref)
	if ref.Err != nil {
		r.Violate("create-failed", "Create failed: %v", ref.Err)
	}
	w.RecordCreated(r, ref)
	want := w.Created
	gs := []int{2, 3, 4, 7, 16, 64, 0, 65536, 100000}
	n := 1 + t.Draw(2, "variants")
	for i := 0; i < n; i++ {
		w2 := *w
		w2.Disk = base.Clone()
		w2.G = gs[t.Draw(len(gs), "g")]
		spec := SchedSpec{Mode: sched.Drive, Strategy: t.Draw(stratCount, "strategy")}
		c := r.Create2(&w2, w2.FilePaths(), nil, spec)
		r.noPanic(c)
		for _, v := range c.SchedV {
			r.Violate(v.Kind, "Create G=%d: %s", w2.G, v.Detail)
		}
		if c.Err != nil {
			r.Violate("outputs-differ", "goroutines: Create with G=%d failed (%v) but succeeded with G=1", w2.G, c.Err)
		}
		got := map[string][]byte{}
		for _, a := range c.Writes() {
			got[a.Resolved] = a.Data
		}
		if len(got) != len(want) {
			r.Violate("outputs-differ", "goroutines: Create with G=%d wrote %d files, %d with G=1", w2.G, len(got), len(want))
		}
		for p, b := range want {
			if !bytes.Equal(got[p], b) {
				r.Violate("outputs-differ", "goroutines: %s written by Create with G=%d differs from G=1 at byte %d", p, w2.G, firstDiff(b, got[p]))
			}
		}
	}
	// damage, then repair under several goroutine counts from the same state
	nd := 1 + t.Draw(3, "ndamage")
	for i := 0; i < nd; i++ {
		w.DamageData(r, []string{"delete", "flip", "overwrite", "insert", "truncate", "swap"})
	}
	if t.Bool(1, 3, "lose-recovery") || wantStale {
		w.DeleteRecovery(r)
	}
	if wantStale {
		// recovery blocks of an earlier generation of the same set (same
		// names, lengths and first 16 KiB) on exponents that are free now:
		// valid packets whose content does not fit the data - with or
		// without the double check, every goroutine count must reach the
		// same verdict and leave the same files
		w.hostileRecoveryKind(r, "stale-same-setid")
		r.Probe("stale-volume-beside-gap")
	}
	state := w.Disk.Clone()
	wr := *w
	wr.Disk = state.Clone()
	dc := t.Bool(1, 2, "doublecheck")
	r1 := r.Repair2(&wr, w.Index, 1, dc, nil, SchedSpec{})
	r.noPanic(r1)
	after1 := wr.Disk.Snapshot()
	for i := 0; i < n; i++ {
		w2 := *w
		w2.Disk = state.Clone()
		g := gs[t.Draw(len(gs), "g-repair")]
		spec := SchedSpec{Mode: sched.Drive, Strategy: t.Draw(stratCount, "strategy")}
		r2 := r.Repair2(&w2, w.Index, g, dc, nil, spec)
		r.noPanic(r2)
		for _, v := range r2.SchedV {
			r.Violate(v.Kind, "Repair G=%d: %s", g, v.Detail)
		}
		if (r1.Err == nil) != (r2.Err == nil) {
			r.Violate("outputs-differ", "goroutines: Repair with G=%d returned %v, with G=1 %v", g, r2.Err, r1.Err)
		}
		after2 := w2.Disk.Snapshot()
		for p, b := range after1 {
			if !bytes.Equal(after2[p], b) {
				r.Violate("outputs-differ", "goroutines: %s after Repair with G=%d differs from G=1", p, g)
			}
		}
		if len(after1) != len(after2) {
			r.Violate("outputs-differ", "goroutines: Repair with G=%d leaves %d files, %d with G=1", g, len(after2), len(after1))
		}
	}
	st := r.Sched.Stats
	r.Class = fmt.Sprintf("S=%d N=%s workers=%d hash=%016x", w.S, sizeClass(w.N), st.MaxWorkers, st.ScheduleHash)
	r.Nontriv = st.MaxWorkers >= 2
}

// coderFree is executed inside the -race build: the coder workloads
// free-running with tape-chosen Gosched jitter.
func coderFree(r *Run, iters int) {
	t := r.T
	for it := 0; it < iters; it++ {
		kind := t.Draw(2, "coder")
		d := 1 + t.Draw(8, "data-shards")
		p := 1 + t.Draw(6, "parity-shards")
		length := coderLens[t.Draw(len(coderLens), "len")]
		g := 2 + t.Draw((length+15)/16+3, "goroutines")
		if t.Bool(1, 8, "many-tiny-shards") {
			// hundreds to thousands of very short shards (PAR2 sets of
			// many 4..60-byte slices)
			d = 200 + t.Draw(2000, "many-d")
			p = 1 + t.Draw(4, "many-p")
			length = 2 * (1 + t.Draw(31, "tiny-len"))
			g = 2 + t.Draw(15, "many-g")
		}
		manyMissing := false
		if t.Bool(1, 8, "many-missing") {
			// more than 64 data shards to reconstruct at once (the matrix
			// that has to be inverted is then large enough for a coder to
			// want to parallelise the inversion itself)
			d = 80 + t.Draw(200, "mm-d")
			p = 65 + t.Draw(100, "mm-p")
			length = 2 * (1 + t.Draw(32, "mm-len"))
			g = 2 + t.Draw(7, "mm-g")
			manyMissing = true
		}
		var c, c1 rsec16.Coder
		if kind == 0 {
			c, _ = rsec16.NewCoderCauchy(d, p, g)
			c1, _ = rsec16.NewCoderCauchy(d, p, 1)
		} else {
			c, _ = rsec16.NewCoderPAR2Vandermonde(d, p, g)
			c1, _ = rsec16.NewCoderPAR2Vandermonde(d, p, 1)
		}
		data := genShards(r, d, length)
		var got [][]byte
		vs, pan := r.coderOp("generate-free", SchedSpec{Mode: sched.Jitter}, func() { got = c.GenerateParity(data) })
		r.reportSched("GenerateParity (free-running)", vs, pan)
		want := c1.GenerateParity(data)
		for i := range want {
			if !bytes.Equal(want[i], got[i]) {
				r.Violate("bytes-differ-from-single", "free-running GenerateParity(kind=%d d=%d p=%d len=%d g=%d): shard %d differs", kind, d, p, length, g, i)
			}
		}
		if t.Bool(1, 3, "coder-reused-other-length") {
			// the same coder value used again for shards of another length
			// (a few bytes longer or shorter, or another multiple of 16):
			// nothing a coder remembers from one call may shape the next
			l2 := length + []int{2, 4, 6, 8, 10, 12, 14, 16, 32, -2, -4, -14, -16}[t.Draw(13, "len-delta")]
			if l2 < 2 {
				l2 = length + 2
			}
			data2 := genShards(r, d, l2)
			var got2 [][]byte
			vs, pan := r.coderOp("generate-free-reused", SchedSpec{Mode: sched.Jitter}, func() { got2 = c.GenerateParity(data2) })
			r.reportSched("GenerateParity (free-running, coder reused)", vs, pan)
			want2 := c1.GenerateParity(data2)
			for i := range want2 {
				if i >= len(got2) || !bytes.Equal(want2[i], got2[i]) {
					r.Violate("bytes-differ-from-single", "free-running GenerateParity(kind=%d d=%d p=%d g=%d) on a coder used before with len=%d, now len=%d: shard %d differs", kind, d, p, g, length, l2, i)
					break
				}
			}
			r.Probe("coder-reused-with-another-length")
		}
		dm := cloneShards(data)
		k := t.Draw(min(d, p)+1, "missing")
		if manyMissing {
			k = 65 + t.Draw(min(d, p)-64, "mm-missing")
			r.Probe("reconstruct->64-missing-shards")
		}
		for i := 0; i < k; i++ {
			dm[i] = nil
		}
		ds := cloneShards(dm)
		errS := c1.ReconstructData(ds, cloneShards(want))
		var errG error
		vs, pan = r.coderOp("reconstruct-free", SchedSpec{Mode: sched.Jitter}, func() { errG = c.ReconstructData(dm, cloneShards(want)) })
		r.reportSched("ReconstructData (free-running)", vs, pan)
		if (errS == nil) != (errG == nil) {
			r.Violate("bytes-differ-from-single", "free-running ReconstructData(kind=%d d=%d p=%d len=%d g=%d missing=%d): error %v, with one goroutine %v", kind, d, p, length, g, k, errG, errS)
		}
		for i := range ds {
			if errS == nil && (dm[i] == nil || !bytes.Equal(dm[i], ds[i])) {
				r.Violate("bytes-differ-from-single", "free-running ReconstructData(kind=%d d=%d p=%d len=%d g=%d missing=%d): data shard %d differs from the single-goroutine result", kind, d, p, length, g, k, i)
				break
			}
		}
	}
	r.Class = "free"
}

// coderFreeLong: shards of 128 KiB to a few MiB coded by several
// goroutines that run freely (really in parallel when the run's
// GOMAXPROCS, drawn from the tape, exceeds 1), compared with the
// single-goroutine result. The driven scheduler interleaves workers only
// at yield points; this profile is the complement for whatever happens
// between two yield points. Violations found here depend on timing and
// may not replay.
func coderFreeLong(r *Run) {
	t := r.T
	lens := []int{1 << 17, 1<<17 + 2, 1<<18 + 250, 1 << 19, 3 << 18, 1 << 20, 1<<20 + 4098, 2 << 20}
	for it := 0; it < 12; it++ {
		kind := t.Draw(2, "coder")
		d := 1 + t.Draw(3, "data-shards")
		p := 1 + t.Draw(3, "parity-shards")
		length := lens[t.Draw(len(lens), "len")]
		g := []int{2, 3, 4, 9, 16}[t.Draw(5, "goroutines")]
		c := mk0(r, kind, d, p, g)
		c1 := mk0(r, kind, d, p, 1)
		data := genShards(r, d, length)
		want := c1.GenerateParity(data)
		for rep := 0; rep < 3; rep++ {
			var got [][]byte
			vs, pan := r.coderOp("generate-free-long", SchedSpec{Mode: sched.Record}, func() { got = c.GenerateParity(data) })
			r.reportSched("GenerateParity (free-running, long shards)", vs, pan)
			for i := range want {
				if i >= len(got) || !bytes.Equal(want[i], got[i]) {
					r.Violate("bytes-differ-from-single", "free-running GenerateParity(kind=%d d=%d p=%d len=%d g=%d): parity shard %d differs from the single-goroutine result", kind, d, p, length, g, i)
					break
				}
			}
		}
		dm := cloneShards(data)
		k := 1 + t.Draw(min(d, p), "missing")
		for i := 0; i < k; i++ {
			dm[i] = nil
		}
		ds := cloneShards(dm)
		errS := c1.ReconstructData(ds, cloneShards(want))
		var errG error
		vs, pan := r.coderOp("reconstruct-free-long", SchedSpec{Mode: sched.Record}, func() { errG = c.ReconstructData(dm, cloneShards(want)) })
		r.reportSched("ReconstructData (free-running, long shards)", vs, pan)
		if (errS == nil) != (errG == nil) {
			r.Violate("bytes-differ-from-single", "free-running ReconstructData(kind=%d d=%d p=%d len=%d g=%d): error %v, with one goroutine %v", kind, d, p, length, g, errG, errS)
		}
		for i := range ds {
			if errS == nil && (dm[i] == nil || !bytes.Equal(dm[i], ds[i])) {
				r.Violate("bytes-differ-from-single", "free-running ReconstructData(kind=%d d=%d p=%d len=%d g=%d): data shard %d differs from the single-goroutine result", kind, d, p, length, g, i)
				break
			}
		}
	}
	// ... one call that produces 16 MiB of output and more (helpers that
	// pre-touch, pre-fault or stage big buffers start at such sizes)
	{
		kind := t.Draw(2, "huge-coder")
		d := 1 + t.Draw(2, "huge-d")
		p := 2 + t.Draw(2, "huge-p")
		length := (8 << 20) + 16*t.Draw(2, "huge-odd")
		g := []int{2, 3, 4, 8}[t.Draw(4, "huge-g")]
		c := mk0(r, kind, d, p, g)
		c1 := mk0(r, kind, d, p, 1)
		data := genShards(r, d, length)
		want := c1.GenerateParity(data)
		var got [][]byte
		vs, pan := r.coderOp("generate-free-huge", SchedSpec{Mode: sched.Record}, func() { got = c.GenerateParity(data) })
		r.reportSched("GenerateParity (free-running, 16 MiB+ of output)", vs, pan)
		for i := range want {
			if i >= len(got) || !bytes.Equal(want[i], got[i]) {
				r.Violate("bytes-differ-from-single", "free-running GenerateParity(kind=%d d=%d p=%d len=%d g=%d): parity shard %d differs from the single-goroutine result at byte %d", kind, d, p, length, g, i, firstDiff(want[i], got[i]))
				break
			}
		}
		r.Probe("output>=16MiB")
	}
	// ... and reconstructions of more than 64 data shards at once with
	// short shards (the inversion of a large matrix is the heavy part)
	for it := 0; it < 6; it++ {
		kind := t.Draw(2, "mm-coder")
		d := 80 + t.Draw(200, "mm-d")
		p := 65 + t.Draw(100, "mm-p")
		length := 2 * (1 + t.Draw(32, "mm-len"))
		g := 2 + t.Draw(7, "mm-g")
		c := mk0(r, kind, d, p, g)
		c1 := mk0(r, kind, d, p, 1)
		data := genShards(r, d, length)
		parity := c1.GenerateParity(data)
		k := 65 + t.Draw(min(d, p)-64, "mm-missing")
		dm := cloneShards(data)
		for _, i := range drawPerm(r, d)[:k] {
			dm[i] = nil
		}
		ds := cloneShards(dm)
		errS := c1.ReconstructData(ds, cloneShards(parity))
		var errG error
		vs, pan := r.coderOp("reconstruct-free-many", SchedSpec{Mode: sched.Record}, func() { errG = c.ReconstructData(dm, cloneShards(parity)) })
		r.reportSched("ReconstructData (free-running, many missing shards)", vs, pan)
		if (errS == nil) != (errG == nil) {
			r.Violate("bytes-differ-from-single", "free-running ReconstructData(kind=%d d=%d p=%d len=%d g=%d missing=%d): error %v, with one goroutine %v", kind, d, p, length, g, k, errG, errS)
		}
		for i := range ds {
			if errS == nil && (dm[i] == nil || !bytes.Equal(dm[i], ds[i])) {
				r.Violate("bytes-differ-from-single", "free-running ReconstructData(kind=%d d=%d p=%d len=%d g=%d missing=%d): data shard %d differs from the single-goroutine result", kind, d, p, length, g, k, i)
				break
			}
		}
		r.Probe("reconstruct->64-missing-shards")
	}
	r.Probe("free-running-long-shards")
	r.Class = fmt.Sprintf("free-long gomaxprocs=%d", runtime.GOMAXPROCS(0))
	r.Nontriv = true
}

// coderRaceBatch runs the -race build of the simulator on the
// free-running coder workload and reports race-detector findings.
func coderRaceBatch(r *Run) {
	bin := os.Getenv("VERIF_RACE_BIN")
	if bin == "" {
		r.Count("race-batch-skipped:no-binary")
		return
	}
	if _, err := os.Stat(bin); err != nil {
		r.Count("race-batch-skipped:no-binary")
		return
	}
	seed := r.T.Draw64(1<<40, "race-seed")
	procs := []string{"1", "2", "4", "16"}[r.T.Draw(4, "gomaxprocs")]
	cmd := exec.Command(bin, "one", "-profile", "coder-free", "-seed", fmt.Sprint(seed))
	cmd.Env = append(os.Environ(), "GOMAXPROCS="+procs, "GORACE=halt_on_error=0 exitcode=0")
	var stderr strings.Builder
	cmd.Stderr = &limitedWriter{w: &stderr, n: 1 << 16}
	out, err := cmd.Output()
	r.Logf("race batch seed=%d GOMAXPROCS=%s err=%v", seed, procs, err)
	r.Count("race-batch-runs")
	// reach of the rare events inside the -race process (its probes are
	// counted there, not here): carried over so that the evidence shows them
	for _, name := range []string{"coder-reused-with-another-length", "reconstruct->64-missing-shards", "structured-shards"} {
		key := strings.ReplaceAll(`"probe:`+name+`":`, ">", `\u003e`)
		if i := strings.Index(string(out), key); i >= 0 {
			n := 0
			fmt.Sscanf(string(out)[i+len(key):], "%d", &n)
			r.Add("probe:race-batch/"+name, n)
		}
	}
	if strings.Contains(stderr.String(), "DATA RACE") {
		r.Violate("race-detector", "the race detector reports a data race in the free-running coder (seed %d, GOMAXPROCS=%s): %s", seed, procs, lastLines(stderr.String(), 14))
	}
	if i := strings.Index(string(out), `"viol":{`); i >= 0 {
		s := string(out)[i:]
		if len(s) > 400 {
			s = s[:400]
		}
		r.Violate("bytes-differ-from-single", "free-running -race run (seed %d, GOMAXPROCS=%s) reports %s", seed, procs, s)
	}
	r.Class = "race-batch GOMAXPROCS=" + procs
	r.Nontriv = true
}

func mk0(r *Run, kind, d, p, g int) rsec16.Coder {
	var c rsec16.Coder
	var err error
	if kind == 0 {
		c, err = rsec16.NewCoderCauchy(d, p, g)
	} else {
		c, err = rsec16.NewCoderPAR2Vandermonde(d, p, g)
	}
	if err != nil {
		r.Violate("coder-construction", "new coder(%d,%d,%d): %v", d, p, g, err)
	}
	return c
}

// par2Free is executed inside the -race build after coderFree: whole
// Create / Repair on the simulated disk with several goroutines,
// free-running, compared with the single-goroutine result.
func par2Free(r *Run, iters int) {
	t := r.T
	for it := 0; it < iters; it++ {
		w := GenWorld(r, GenOpts{MaxFiles: 4, RandomOnly: true, SliceSizes: []int{4, 8, 16, 64, 100, 1024, 4096}, MaxTotal: 64 << 10})
		if t.Bool(1, 5, "big-input") {
			size := (2 << 20) + t.Draw(1<<20, "mb-size")
			if size/w.S > 20000 {
				size = 20000*w.S - 3
			}
			data := expandContent(ckRandom, t.Draw64(0, "mb-seed"), size, 64)
			w.Files[0].Data = data
			w.Disk.Put(w.Path(0), data)
		}
		base := w.Disk.Clone()
		w.G = 1
		c1 := r.Create2(w, w.FilePaths(), nil, SchedSpec{})
		r.noPanic(c1)
		want := writesOf(c1)
		w2 := *w
		w2.Disk = base.Clone()
		w2.G = 2 + t.Draw(7, "g")
		c2 := r.Create2(&w2, w2.FilePaths(), nil, SchedSpec{Mode: sched.Jitter})
		r.noPanic(c2)
		if (c1.Err == nil) != (c2.Err == nil) {
			r.Violate("outputs-differ", "goroutines (free-running): Create with G=%d returned %v, with G=1 %v", w2.G, c2.Err, c1.Err)
		}
		if d := diffFileSets(want, writesOf(c2)); d != "" {
			r.Violate("outputs-differ", "goroutines (free-running): Create with G=%d: %s", w2.G, d)
		}
		w2.RecordCreated(r, c2)
		w2.DamageData(r, []string{"delete", "flip", "overwrite", "insert"})
		rep := r.Repair2(&w2, w2.Index, w2.G, t.Bool(1, 2, "dc"), nil, SchedSpec{Mode: sched.Jitter})
		r.noPanic(rep)
		if rep.Err == nil && !w2.AllIntact() {
			r.Violate("bytes-differ-from-single", "free-running Repair with G=%d reports success but %s", w2.G, w2.FirstDamaged())
		}
	}
}
