package engine

import (
	"crypto/md5"
	"encoding/binary"
	"fmt"
	"path/filepath"
	"strings"
	"unicode/utf16"

	"verifsim/ref"
	"verifsim/simdisk"
)

func init() {
	Register(&Profile{Name: "containment", Prop: "C15", Weight: 10, Quick: 30000, Thorough: 800000, Sweep: c15SweepCount, Fn: containment})
	SetMeta("C15", &Meta{
		Level: "exploration",
		Rule:  "otherwise valid, fully repairable archives written by the reference writer (PAR2) / reference PAR1 builder whose declared files are missing, with declared names from a traversal corpus (absolute, .., a/../../x, ./.., ., empty, NUL-terminated-early, trailing slash, backslashes, very long, names that Clean to a parent) x every position in sets of 1 and 3 files (deterministic sweep), plus seeded archives with several hostile names composed from path components; Verify and Repair run on a simulated disk surrounded by a canary tree; also PAR2 Create with inputs outside the index file's tree under several spellings. Oracle: no write call whose resolved path lies outside the index directory's tree (PAR1: outside that directory), canary tree byte-identical, no panic, Create refuses outside inputs. Non-trivial: the archive parsed up to the hostile entry (gopar either rejected it with an error or attempted writes); distinct by (format, name class, position, set size, outcome).",
		Assumptions: []string{
			"the hostile archives are produced by the reference writer; its agreement with gopar for benign names is checked in every run (a benign twin of the same archive must repair)",
			"reads outside the tree are counted as a probe, not as a violation (the statement binds create/modify/delete)",
		},
		ProbesWant: []string{"hostile-name-rejected", "hostile-name-reached-write", "benign-twin-repaired", "create-outside-refused", "par1", "par2", "read-outside-tree", "par1-unsaved-hostile-entry"},
	})
}

var traversalCorpus = []string{
	"/etc/passwd", "/abs.txt", "../x", "../../x", "a/../../x", "./../x", "..", ".", "", "a/..", "a/../..", "sub/../../x",
	"..\\x", "x/", "./x", "a//b", "\x00x", "ok\x00/../x", "....", "...", ".hidden", "a/./../b", "../arch/x", "../arch2/x",
	"../sibling/file", "//etc/passwd", "a/../../arch/x", "./", "../", "a/b/../../../top.txt", "/canary/arch/inside-abs",
	strings.Repeat("d/", 60) + "x", strings.Repeat("../", 40) + "etc/passwd", "sub/", "sub/..", " ../x", "..x", "x..", "a/...",
}

func init() {
	// the same spellings with backslashes as separators (a PAR2 set
	// written on Windows may carry them; on this platform a backslash is
	// an ordinary file-name character and must stay one)
	base := append([]string(nil), traversalCorpus...)
	seen := map[string]bool{}
	for _, n := range base {
		seen[n] = true
	}
	for _, n := range base {
		if strings.Contains(n, "/") && len(n) < 100 {
			b := strings.Replace(n, "/", "\\", -1)
			if !seen[b] {
				seen[b] = true
				traversalCorpus = append(traversalCorpus, b)
			}
		}
	}
	traversalCorpus = append(traversalCorpus, "x//../../x", ".//../x", "sub/dir//..//../../../top.txt", "a///../../../x", ".//..//x", "a/b//../../../sibling/file", "sub\\..\\..\\x", "a\\..\\..\\top.txt", "a\\../..\\x", "sub/..\\..\\x", "x\\..\\..\\sibling\\file")
}

type c15Case struct {
	Par1  bool
	Name  int
	Pos   int
	Files int
}

var c15Cases []c15Case

func c15SweepCount(tier string) int {
	if c15Cases == nil {
		for _, par1Set := range []bool{false, true} {
			for ni := range traversalCorpus {
				for _, nf := range []int{1, 3} {
					for pos := 0; pos < nf; pos++ {
						c15Cases = append(c15Cases, c15Case{par1Set, ni, pos, nf})
					}
				}
			}
		}
	}
	return len(c15Cases)
}

// c15Dir is the archive directory of the current run (runs are
// sequential within a process). Its name varies: a directory component
// may itself look like the index file's name.
var c15Dir = "/canary/arch"

var c15Dirs = []string{"/canary/arch", "/canary/set.par2.d", "/canary/set.par", "/canary/old set.par2 copy", "/canary/set.par2", "/canary/arch.v1", "/canary/.hidden.d"}

func c15Disk() (*simdisk.Mem, map[string][]byte) {
	d := simdisk.NewMem()
	d.MkdirAll(c15Dir)
	d.MkdirAll(c15Dir + "/sub")
	d.MkdirAll(c15Dir + "/a")
	d.MkdirAll("/canary/arch2")
	d.MkdirAll("/canary/sibling")
	d.MkdirAll("/etc")
	d.MkdirAll("/tmp")
	d.Cwd = c15Dir
	canary := map[string][]byte{
		"/canary/sibling/file": []byte("sibling"),
		"/canary/top.txt":      []byte("top"),
		"/canary/x":            []byte("cx"),
		"/canary/arch2/x":      []byte("a2x"),
		"/etc/passwd":          []byte("root:x:0:0"),
		"/x":                   []byte("rootx"),
		"/abs.txt":             []byte("abs"),
		"/top.txt":             []byte("rtop"),
	}
	for p, b := range canary {
		d.Put(p, b)
	}
	return d, canary
}

func nameClass(n string) string {
	switch {
	case n == "":
		return "empty"
	case strings.HasPrefix(n, "/"):
		return "absolute"
	case strings.Contains(n, "\x00"):
		return "nul"
	case n == "." || n == ".." || strings.HasPrefix(n, "./") || strings.HasPrefix(n, "../"):
		return "dot-leading"
	case strings.Contains(n, ".."):
		return "dotdot-inside"
	case strings.Contains(n, "\\"):
		return "backslash"
	case strings.HasSuffix(n, "/"):
		return "trailing-slash"
	case len(n) > 100:
		return "long"
	}
	return "other"
}

// buildHostile puts a reference-written archive with the given declared
// names on the disk; every declared file is missing and fully
// recoverable. It returns the index path.
// buildHostile: shadow > 0 (PAR1 only) additionally declares entries that
// are NOT saved in the parity set (status bit 0 clear) carrying the
// hostile names and the size/hashes of the saved files, placed before
// (1), after (2) or interleaved with (3) the saved entries, which then
// carry benign names: a conformant PAR 1.0 index may list such entries.
// c15UniNames, when set, makes the reference writer add Unicode
// Filename packets carrying these names (by file position).
var c15UniNames []string

// c15EmptyEntry, when set, makes the reference writer add a zero-length
// file entry with this name to a PAR2 set.
var c15EmptyEntry string
var c15EmptyNoIFSC bool

// c15DupDesc, when set, makes the reference writer repeat the file
// description packet of these files (by position) with another name but
// the genuine packet's file id.
var c15DupDesc []string

func buildHostile(d *simdisk.Mem, par1Set bool, names []string, contents [][]byte) string {
	return buildHostileShadow(d, par1Set, names, contents, 0)
}

func buildHostileShadow(d *simdisk.Mem, par1Set bool, names []string, contents [][]byte, shadow int) string {
	if par1Set {
		var files []ref.Par1File
		var datas [][]byte
		for i, n := range names {
			saved := ref.Par1File{Name: n, Data: contents[i], Status: 1}
			if shadow > 0 {
				saved.Name = fmt.Sprintf("saved%d.dat", i)
			}
			files = append(files, saved)
			datas = append(datas, contents[i])
		}
		if shadow > 0 {
			var unsaved []ref.Par1File
			for i, n := range names {
				unsaved = append(unsaved, ref.Par1File{Name: n, Data: contents[i], Status: 0})
			}
			switch shadow {
			case 1:
				files = append(unsaved, files...)
			case 2:
				files = append(files, unsaved...)
			default:
				var mixed []ref.Par1File
				for i := range unsaved {
					mixed = append(mixed, unsaved[i], files[i])
				}
				files = mixed
			}
		}
		d.Put(c15Dir+"/set.par", ref.BuildPar1(files, 0, nil))
		for v := 1; v <= len(names); v++ {
			d.Put(fmt.Sprintf("%s/set.p%02d", c15Dir, v), ref.BuildPar1(files, uint64(v), ref.Par1Parity(datas, v)))
		}
		return c15Dir + "/set.par"
	}
	var files []ref.Protected
	n := 0
	for i, nm := range names {
		files = append(files, ref.Protected{Name: nm, Data: contents[i]})
		n += (len(contents[i]) + 3) / 4
	}
	if c15EmptyEntry != "" {
		// an additional zero-length entry (no slices) under a hostile name
		files = append(files, ref.Protected{Name: c15EmptyEntry, Data: []byte{}})
	}
	var exps []int
	for e := 0; e < n; e++ {
		exps = append(exps, e)
	}
	set := ref.BuildSet(files, 4, exps, "refwriter")
	var idx, vol []byte
	idx = append(idx, set.Creator...)
	idx = append(idx, set.Main...)
	for i := range set.FileDesc {
		idx = append(idx, set.FileDesc[i]...)
		if c15EmptyEntry != "" && c15EmptyNoIFSC && set.Files[i].Name == c15EmptyEntry {
			// a file without slices needs no slice-checksum packet
			continue
		}
		idx = append(idx, set.IFSC[i]...)
	}
	vol = append(vol, idx...)
	for _, e := range exps {
		vol = append(vol, set.Recovery[e]...)
	}
	// optional Unicode Filename packets (PAR 2.0 spec, optional packet
	// type "PAR 2.0\0UniFileN": file id + UTF-16LE name) declaring
	// another name for some of the files
	for i, nm := range c15UniNames {
		if i >= len(files) || nm == "" {
			continue
		}
		id := ref.FileID(files[i].Name, files[i].Data)
		body := append([]byte(nil), id[:]...)
		for _, u := range utf16.Encode([]rune(nm)) {
			body = append(body, byte(u), byte(u>>8))
		}
		for len(body)%4 != 0 {
			body = append(body, 0)
		}
		pk := ref.MakePacket(set.SetID, ref.TypeOf("PAR 2.0\x00UniFileN"), body)
		idx = append(idx, pk...)
		vol = append(vol, pk...)
	}
	// optional repeated file description packets: the file id of a
	// genuine packet (no longer matching the name), the same hashes and
	// length, another name, a correct packet checksum
	for i, nm := range c15DupDesc {
		if i >= len(files) || nm == "" {
			continue
		}
		id := ref.FileID(files[i].Name, files[i].Data)
		body := append([]byte(nil), id[:]...)
		full := md5.Sum(files[i].Data)
		body = append(body, full[:]...)
		h16 := full
		if len(files[i].Data) > 16384 {
			h16 = md5.Sum(files[i].Data[:16384])
		}
		body = append(body, h16[:]...)
		var u8 [8]byte
		binary.LittleEndian.PutUint64(u8[:], uint64(len(files[i].Data)))
		body = append(body, u8[:]...)
		body = append(body, nm...)
		pk := ref.MakePacket(set.SetID, ref.TypeFileDesc, body)
		idx = append(idx, pk...)
		vol = append(vol, pk...)
	}
	d.Put(c15Dir+"/set.par2", idx)
	d.Put(fmt.Sprintf("%s/set.vol00+%02d.par2", c15Dir, n), vol)
	return c15Dir + "/set.par2"
}

func containment(r *Run) {
	t := r.T
	c15SweepCount(r.Tier)
	c15Dir = c15Dirs[t.Pick([]int{4, 1, 1, 1, 1, 1, 1}, "archive-dir")]
	defer func() { c15Dir = "/canary/arch" }()
	var par1Set bool
	var names []string
	hostileAt := map[int]bool{}
	if r.SweepCase >= 0 {
		c := c15Cases[r.SweepCase]
		par1Set = c.Par1
		for i := 0; i < c.Files; i++ {
			names = append(names, fmt.Sprintf("benign%d.dat", i))
		}
		names[c.Pos] = traversalCorpus[c.Name]
		hostileAt[c.Pos] = true
	} else {
		par1Set = t.Bool(1, 3, "par1")
		nf := 1 + t.Draw(4, "nfiles")
		for i := 0; i < nf; i++ {
			names = append(names, fmt.Sprintf("benign%d.dat", i))
		}
		nh := 1 + t.Draw(2, "nhostile")
		for k := 0; k < nh; k++ {
			pos := t.Draw(nf, "pos")
			hostileAt[pos] = true
			if t.Bool(1, 2, "corpus") {
				names[pos] = traversalCorpus[t.Draw(len(traversalCorpus), "name")]
			} else {
				// compose from components
				comps := []string{"..", ".", "a", "sub", "", "x", "...", "arch", "etc", "canary"}
				var parts []string
				nc := 1 + t.Draw(5, "ncomp")
				for j := 0; j < nc; j++ {
					parts = append(parts, comps[t.Draw(len(comps), "comp")])
				}
				sep := "/"
				if t.Bool(1, 4, "backslash-sep") {
					sep = "\\"
				}
				n := strings.Join(parts, sep)
				if t.Bool(1, 4, "abs") {
					n = "/" + n
				}
				if dict := sourceDict(); len(dict) > 0 && t.Bool(1, 3, "dictionary-token") {
					// leave the directory and come back in through a name taken
					// from the dictionary of the source tree's string literals
					tok := dict[t.Draw(len(dict), "token")]
					n = []string{"../" + tok + "/x", "sub/../../" + tok + "/x", "../../" + tok + "/x", tok + "/../../x", "../" + tok}[t.Draw(5, "shape")]
					r.Probe("name-with-dictionary-token")
				}
				names[pos] = n
			}
		}
		if t.Bool(1, 6, "create-outside") {
			c15CreateOutside(r)
		}
	}
	// distinct names only (duplicates would give identical file ids)
	seen := map[string]bool{}
	for i, n := range names {
		for seen[n] {
			n += "_"
			names[i] = n
		}
		seen[n] = true
	}
	var contents [][]byte
	for i := range names {
		contents = append(contents, expandContent(ckRandom, uint64(77+i), 5+3*i, 4))
	}
	if par1Set && r.SweepCase < 0 && len(names) > 1 && t.Bool(1, 5, "empty-hostile-file") {
		// a zero-length file (legal in PAR1) under the hostile name
		for i := range names {
			if hostileAt[i] {
				contents[i] = []byte{}
				r.Probe("par1-empty-file-with-hostile-name")
				break
			}
		}
	}
	if par1Set {
		r.Probe("par1")
	} else {
		r.Probe("par2")
	}

	// benign twin: the same archive with harmless names must repair, or
	// the hostile run proves nothing
	{
		d, _ := c15Disk()
		var benign []string
		for i := range names {
			benign = append(benign, fmt.Sprintf("benign%d.dat", i))
		}
		index := buildHostile(d, par1Set, benign, contents)
		w := &World{Par1: par1Set, Disk: d, Dir: c15Dir, Base: "set", Index: index, S: 4}
		for i := range benign {
			w.Files = append(w.Files, ref.Protected{Name: benign[i], Data: contents[i]})
		}
		var rep *OpResult
		if par1Set {
			rep = r.Repair1(w, index, false, nil)
		} else {
			rep = r.Repair2(w, index, 1, false, nil, SchedSpec{})
		}
		r.noPanic(rep)
		for _, a := range rep.Log {
			inside := strings.HasPrefix(a.Resolved, c15Dir+"/")
			if par1Set {
				inside = filepath.Dir(a.Resolved) == c15Dir
			}
			if a.Op == 'W' && !inside && (a.Err == "" || a.Kept > 0) {
				r.Violate("wrote-outside-root", "%s wrote %s, outside the archive directory %s, for entirely benign declared names %q", rep.Op, a.Resolved, c15Dir, benign)
			}
		}
		if rep.Err != nil || !w.AllIntact() {
			r.Violate("benign-twin-not-repaired", "the benign twin (same reference-written archive, harmless names, directory %q) is not repaired by gopar, so nothing can be concluded from the hostile run: %s", c15Dir, rep.errString())
		}
		r.Probe("benign-twin-repaired")
	}

	d, canary := c15Disk()
	shadow := 0
	if par1Set {
		if r.SweepCase >= 0 {
			shadow = r.SweepCase % 4
		} else {
			shadow = t.Pick([]int{3, 1, 1, 1}, "unsaved-shadow")
		}
		if shadow > 0 {
			r.Probe("par1-unsaved-hostile-entry")
		}
	}
	if !par1Set && r.SweepCase < 0 && t.Bool(1, 4, "unicode-name-packets") {
		// the hostile names are declared in Unicode Filename packets; the
		// file description packets carry them too, or harmless names
		c15UniNames = append([]string(nil), names...)
		for i := range c15UniNames {
			if !hostileAt[i] {
				c15UniNames[i] = ""
			}
		}
		if t.Bool(1, 2, "ascii-names-benign") {
			for i := range names {
				if hostileAt[i] {
					names[i] = fmt.Sprintf("benign%d.dat", i)
				}
			}
		}
		r.Probe("unicode-filename-packets")
	}
	if !par1Set && r.SweepCase < 0 && c15UniNames == nil && t.Bool(1, 5, "repeated-description-packet") {
		// the hostile names are declared in repeated file description
		// packets that reuse the genuine packets' file ids; the genuine
		// packets carry harmless names
		c15DupDesc = append([]string(nil), names...)
		for i := range c15DupDesc {
			if !hostileAt[i] {
				c15DupDesc[i] = ""
			} else {
				names[i] = fmt.Sprintf("benign%d.dat", i)
			}
		}
		r.Probe("repeated-description-packet-with-stale-id")
	}
	if !par1Set && r.SweepCase < 0 && t.Bool(1, 5, "zero-length-hostile-entry") {
		// one more entry: zero bytes long, declared under a hostile name
		var hn []string
		for i := range names {
			if hostileAt[i] {
				hn = append(hn, names[i])
			}
		}
		if len(hn) > 0 {
			c15EmptyEntry = hn[t.Draw(len(hn), "empty-name")] + "_0"
			if t.Bool(1, 2, "plain") {
				c15EmptyEntry = []string{"../empty", "sub/../../empty", "/canary/empty", "../canary/x"}[t.Draw(4, "empty-corpus")]
			}
			c15EmptyNoIFSC = t.Bool(1, 2, "no-ifsc")
			r.Probe("zero-length-entry-with-hostile-name")
		}
	}
	also := ""
	if c15UniNames != nil || c15DupDesc != nil || c15EmptyEntry != "" {
		also = fmt.Sprintf("; also declared: unicode-name packets %q, repeated description packets %q, zero-length entry %q", c15UniNames, c15DupDesc, c15EmptyEntry)
	}
	// the directory an escaping relative name would land in exists (a
	// write into a missing directory fails by itself and shows nothing)
	for i, n := range names {
		if !hostileAt[i] || strings.HasPrefix(n, "/") || strings.ContainsAny(n, "\x00") {
			continue
		}
		if dir := filepath.Dir(filepath.Join(c15Dir, n)); !strings.HasPrefix(dir+"/", c15Dir+"/") && len(dir) < 200 {
			d.MkdirAll(dir)
		}
	}
	index := buildHostileShadow(d, par1Set, names, contents, shadow)
	c15UniNames = nil
	c15EmptyEntry = ""
	c15DupDesc = nil
	w := &World{Par1: par1Set, Disk: d, Dir: c15Dir, Base: "set", Index: index, S: 4}
	// the index path as the caller spells it: absolute, relative to the
	// archive directory, or relative to its parent (the base directory
	// must come from the index path, not from the working directory)
	switch t.Draw(4, "index-spelling") {
	case 1:
		d.Cwd = c15Dir
		index = filepath.Base(index)
	case 2:
		d.Cwd = c15Dir
		index = "./" + filepath.Base(index)
	case 3:
		d.Cwd = filepath.Dir(c15Dir)
		index = filepath.Base(c15Dir) + "/" + filepath.Base(index)
	}
	r.Logf("hostile archive par1=%v names=%q%s index=%q cwd=%s", par1Set, names, also, index, d.Cwd)
	outcome := ""
	for _, op := range []string{"verify", "repair", "repair-dc"} {
		var res *OpResult
		switch {
		case op == "verify" && par1Set:
			res = r.Verify1(w, index, true, nil)
		case op == "verify":
			res = r.Verify2(w, index, 1, nil, SchedSpec{})
		case par1Set:
			res = r.Repair1(w, index, op == "repair-dc", nil)
		default:
			res = r.Repair2(w, index, 1, op == "repair-dc", nil, SchedSpec{})
		}
		r.noPanic(res)
		reached := false
		for _, a := range res.Log {
			inside := strings.HasPrefix(a.Resolved, c15Dir+"/")
			if par1Set {
				inside = filepath.Dir(a.Resolved) == c15Dir
			}
			switch a.Op {
			case 'W':
				reached = true
				if !inside {
					// a write call that failed without any effect (e.g. the
					// name ".." resolves to the parent directory itself and
					// the write fails with EISDIR) creates, modifies and
					// deletes nothing: the statement allows entries that
					// "fail without side effects"
					if a.Err != "" && a.Kept == 0 && a.Fault == 0 {
						r.Probe("failed-write-attempt-outside")
						continue
					}
					r.Violate("wrote-outside-root", "%s wrote %s (declared names %q%s), outside %s", res.Op, a.Resolved, names, also, c15Dir)
				}
			case 'R':
				if !inside && a.Resolved != "" {
					r.Probe("read-outside-tree")
				}
			}
		}
		for p, b := range canary {
			if got, ok := d.Get(p); !ok || string(got) != string(b) {
				r.Violate("canary-changed", "%s changed %s outside the archive directory (declared names %q)", res.Op, p, names)
			}
		}
		for _, p := range d.SortedPaths() {
			inside := strings.HasPrefix(p, c15Dir+"/")
			if par1Set {
				inside = filepath.Dir(p) == c15Dir
			}
			if _, isCanary := canary[p]; !inside && !isCanary {
				r.Violate("canary-changed", "%s created %s outside the archive directory (declared names %q)", res.Op, p, names)
			}
		}
		if res.Err != nil {
			r.Probe("hostile-name-rejected")
			outcome += "E"
		} else {
			outcome += "S"
		}
		if reached {
			r.Probe("hostile-name-reached-write")
		}
	}
	var classes []string
	for i := range names {
		if hostileAt[i] {
			classes = append(classes, nameClass(names[i]))
		}
	}
	r.Class = fmt.Sprintf("par1=%v nf=%d names=%v out=%s", par1Set, len(names), uniqSorted(classes), outcome)
	r.Nontriv = true
}

// c15CreateOutside: PAR2 Create must refuse inputs outside the index
// file's directory tree.
func c15CreateOutside(r *Run) {
	t := r.T
	d, canary := c15Disk()
	d.Put(c15Dir+"/in.dat", []byte("inside data"))
	// a sibling directory whose name extends the archive directory's name
	for _, p := range []string{c15Dir + "2/x", c15Dir + "-old/x"} {
		if _, ok := d.Get(p); !ok {
			d.Put(p, []byte("prefix-sharing sibling"))
			canary[p] = []byte("prefix-sharing sibling")
		}
	}
	outside := []string{"/canary/sibling/file", c15Dir + "/../sibling/file", "/canary/arch2/x", c15Dir + "/../arch2/x", "/etc/passwd", c15Dir + "/sub/../../top.txt", c15Dir + "/../x", "/x",
		c15Dir + "2/x", c15Dir + "-old/x", "/canary//sibling/file", c15Dir + "/./../sibling/file", c15Dir + "//../top.txt", c15Dir + "/sub/..//../top.txt"}
	o := outside[t.Draw(len(outside), "outside")]
	paths := []string{c15Dir + "/in.dat", o}
	if t.Bool(1, 2, "outside-first") {
		paths = []string{o, c15Dir + "/in.dat"}
	}
	w := &World{Disk: d, Dir: c15Dir, Base: "set", Index: c15Dir + "/set.par2", S: 4, R: 2, G: 1}
	res := r.Create2(w, paths, nil, SchedSpec{})
	r.noPanic(res)
	if res.Err == nil {
		r.Violate("create-accepted-outside", "PAR2 Create accepted input %s outside the index directory %s", o, c15Dir)
	}
	r.Probe("create-outside-refused")
	for _, a := range res.Writes() {
		if !strings.HasPrefix(a.Resolved, c15Dir+"/") {
			r.Violate("wrote-outside-root", "Create wrote %s", a.Resolved)
		}
	}
	for p, b := range canary {
		if got, ok := d.Get(p); !ok || string(got) != string(b) {
			r.Violate("canary-changed", "Create changed %s", p)
		}
	}
}
