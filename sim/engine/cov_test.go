package engine

import (
	"os"
	"testing"
	"time"

	"verifsim/tape"
)

// TestCoverageBatch runs a small in-process batch of every profile; it
// exists to measure which statements of akalin/gopar the simulated
// workloads execute:
//
//	go test -tags verif -run TestCoverageBatch -coverpkg=github.com/akalin/gopar/... -coverprofile=/dev/shm/cov.txt ./engine
func TestCoverageBatch(t *testing.T) {
	if os.Getenv("VERIF_COVERAGE") == "" {
		t.Skip("set VERIF_COVERAGE=1")
	}
	for _, p := range profiles {
		if p.Name == "coder-race-batch" {
			continue
		}
		n := 150
		sweep := 0
		if p.Sweep != nil {
			sweep = p.Sweep("quick")
		}
		for i := 0; i < n; i++ {
			idx := -1
			if sweep > 0 && i < n/2 {
				idx = (i * 37) % sweep
			}
			seed := tape.Mix(99, uint64(i))
			res := Execute(p, "quick", seed, tape.New(seed), idx, 2*time.Minute)
			if res.Viol != nil || res.Infra != "" {
				t.Errorf("%s seed %d: %v %s", p.Name, seed, res.Viol, res.Infra)
			}
		}
	}
}
