package engine

import (
	"fmt"
	"path/filepath"
	"runtime/debug"
	"sort"
	"strings"

	"github.com/akalin/gopar/par1"
	"github.com/akalin/gopar/par2"

	"verifsim/ref"
	"verifsim/sched"
	"verifsim/simdisk"
)

// OpResult is the outcome of one operation of the system under test.
type OpResult struct {
	Op       string
	Err      error
	Panic    string // non-empty if the operation panicked on the calling goroutine
	Crashed  bool   // aborted by an injected crash
	Log      []simdisk.Access
	Before   map[string][]byte
	After    map[string][]byte
	Repaired []string
	Counts   par2.ShardCounts
	Counts1  par1.FileCounts
	AllData  bool
	HasRes   bool // a result (not an error) was returned
	SchedV   []sched.Violation
	Delegate []DelegateEvent // per-file outcomes reported to the delegate
}

func (o *OpResult) errString() string {
	if o.Panic != "" {
		return "PANIC: " + firstLine(o.Panic)
	}
	if o.Crashed {
		return "CRASHED"
	}
	if o.Err != nil {
		return "err=" + o.Err.Error()
	}
	return "ok"
}

func firstLine(s string) string {
	if i := strings.IndexByte(s, '\n'); i >= 0 {
		return s[:i]
	}
	return s
}

// Writes returns the write accesses of the operation.
func (o *OpResult) Writes() []simdisk.Access {
	var out []simdisk.Access
	for _, a := range o.Log {
		if a.Op == 'W' {
			out = append(out, a)
		}
	}
	return out
}

// SchedSpec says how the coder's workers are scheduled in an operation.
type SchedSpec struct {
	Mode     sched.Mode
	Strategy int
}

// Schedule strategies.
const (
	stratUniform = iota
	stratBursts
	stratRoundRobin
	stratLastFirst
	stratStarveOne
	stratCount
)

var stratNames = []string{"uniform", "bursts", "round-robin", "last-first", "starve-one"}

// armSched configures the controller for the next operation. All
// scheduling decisions come from the tape.
func (r *Run) armSched(spec SchedSpec) {
	c := r.Sched
	c.SetMode(spec.Mode)
	if spec.Mode == sched.Jitter {
		c.Mask = func() uint64 { return r.T.Draw64(0, "jitter-mask") }
	}
	if spec.Mode != sched.Drive {
		c.Pick = nil
		return
	}
	t := r.T
	starved := -1
	burst := 0
	c.Pick = func(runnable []int, last int, lastRunnable bool) int {
		switch spec.Strategy {
		case stratBursts:
			// run the current worker on; preempt with probability 1/8
			if lastRunnable {
				if burst > 0 || !t.Bool(1, 8, "preempt") {
					if burst > 0 {
						burst--
					}
					for i, x := range runnable {
						if x == last {
							return i
						}
					}
				}
				burst = 0
			}
			return t.Draw(len(runnable), "pick")
		case stratRoundRobin:
			for i, x := range runnable {
				if x > last {
					return i
				}
			}
			return 0
		case stratLastFirst:
			return len(runnable) - 1
		case stratStarveOne:
			if starved < 0 {
				starved = runnable[t.Draw(len(runnable), "starved")]
			}
			var cand []int
			for i, x := range runnable {
				if x != starved {
					cand = append(cand, i)
				}
			}
			if len(cand) == 0 {
				return 0
			}
			return cand[t.Draw(len(cand), "pick")]
		}
		return t.Draw(len(runnable), "pick")
	}
}

// drawSched draws a scheduling spec: armed (Drive) in 1/armDen of the
// cases, Record otherwise.
func (r *Run) drawSched(armNum, armDen int) SchedSpec {
	if r.T.Bool(armNum, armDen, "sched-armed") {
		return SchedSpec{Mode: sched.Drive, Strategy: r.T.Draw(stratCount, "sched-strategy")}
	}
	return SchedSpec{Mode: sched.Record}
}

// runOp executes fn against the world's disk with the given fault plan,
// capturing panics, the crash sentinel, the access log and snapshots.
func (r *Run) runOp(w *World, op string, plan []simdisk.Fault, spec SchedSpec, fn func(res *OpResult)) *OpResult {
	res := &OpResult{Op: op}
	d := w.Disk
	res.Before = d.Snapshot()
	seq0 := d.Seq()
	d.BeginOp(plan)
	r.Sched.Take()
	r.armSched(spec)
	func() {
		defer func() {
			if x := recover(); x != nil {
				switch x.(type) {
				case simdisk.CrashPanic:
					res.Crashed = true
				case violationPanic, knownStop:
					panic(x)
				default:
					res.Panic = fmt.Sprintf("%v\n%s", x, trimStack(debug.Stack()))
				}
			}
		}()
		fn(res)
	}()
	r.Sched.SetMode(sched.Off)
	res.SchedV = r.Sched.Take()
	if d.Crashed() {
		// whatever the operation returned died with the process
		res.Crashed = true
		res.Err, res.HasRes, res.Repaired = nil, false, nil
	}
	d.BeginOp(nil)
	res.Log = append([]simdisk.Access(nil), d.LogFrom(seq0)...)
	res.After = d.Snapshot()
	r.Logf("op %s -> %s", op, res.errString())
	r.LogAccesses(res.Log)
	r.Count("op:" + strings.SplitN(op, " ", 2)[0])
	if st := r.Sched.Stats; st.Releases > 0 {
		r.Logf("sched releases=%d preemptions=%d hash=%016x", st.Releases, st.Preemptions, st.ScheduleHash)
	}
	if len(plan) > 0 {
		// with injected faults: the per-file outcomes reported to the
		// delegate must not call a failed read or write a success
		r.oracleDelegate(res)
	}
	return res
}

func trimStack(b []byte) string {
	s := string(b)
	lines := strings.Split(s, "\n")
	var keep []string
	for _, l := range lines {
		if strings.Contains(l, "gopar") || strings.Contains(l, "panic") {
			keep = append(keep, strings.TrimSpace(l))
		}
		if len(keep) > 12 {
			break
		}
	}
	return strings.Join(keep, "\n")
}

func goroutines(g int) int {
	return g // 0 = let gopar pick its default
}

// Create2 runs par2 Create on the simulated disk.
func (r *Run) Create2(w *World, paths []string, plan []simdisk.Fault, spec SchedSpec) *OpResult {
	res := r.runOp(w, fmt.Sprintf("create2 S=%d R=%d G=%d", w.S, w.R, w.G), plan, spec, func(res *OpResult) {
		opts := par2.CreateOptions{SliceByteCount: w.S, NumParityShards: w.R, NumGoroutines: w.G}
		if w.UseDefaults {
			opts = par2.CreateOptions{}
		}
		opts.CreateDelegate = recEncoder2{recorder: recorder{w.Disk, &res.Delegate}}
		res.Err = par2.VerifCreate(w.Disk, w.Index, paths, opts)
		res.HasRes = res.Err == nil
	})
	return res
}

// Verify2 runs par2 Verify on the simulated disk.
func (r *Run) Verify2(w *World, index string, g int, plan []simdisk.Fault, spec SchedSpec) *OpResult {
	return r.runOp(w, "verify2", plan, spec, func(res *OpResult) {
		vr, err := par2.VerifVerify(w.Disk, index, par2.VerifyOptions{NumGoroutines: g, VerifyDelegate: recDecoder2{recorder: recorder{w.Disk, &res.Delegate}}})
		res.Err = err
		if err == nil {
			res.HasRes = true
			res.Counts = vr.ShardCounts
		}
	})
}

// Repair2 runs par2 Repair on the simulated disk.
func (r *Run) Repair2(w *World, index string, g int, doubleCheck bool, plan []simdisk.Fault, spec SchedSpec) *OpResult {
	return r.runOp(w, fmt.Sprintf("repair2 G=%d dc=%v", g, doubleCheck), plan, spec, func(res *OpResult) {
		rr, err := par2.VerifRepair(w.Disk, index, par2.RepairOptions{DoubleCheck: doubleCheck, NumGoroutines: g, RepairDelegate: recDecoder2{recorder: recorder{w.Disk, &res.Delegate}}})
		res.Err = err
		res.Repaired = rr.RepairedPaths
		res.HasRes = err == nil
	})
}

// Create1 runs par1 Create.
func (r *Run) Create1(w *World, index string, paths []string, plan []simdisk.Fault) *OpResult {
	return r.runOp(w, fmt.Sprintf("create1 V=%d", w.R), plan, SchedSpec{}, func(res *OpResult) {
		opts := par1.CreateOptions{NumParityFiles: w.R}
		if w.UseDefaults {
			opts = par1.CreateOptions{}
		}
		opts.CreateDelegate = recEncoder1{recorder: recorder{w.Disk, &res.Delegate}}
		res.Err = par1.VerifCreate(w.Disk, index, paths, opts)
		res.HasRes = res.Err == nil
	})
}

// Verify1 runs par1 Verify.
func (r *Run) Verify1(w *World, index string, all bool, plan []simdisk.Fault) *OpResult {
	return r.runOp(w, fmt.Sprintf("verify1 all=%v", all), plan, SchedSpec{}, func(res *OpResult) {
		vr, err := par1.VerifVerify(w.Disk, index, par1.VerifyOptions{VerifyAllData: all, VerifyDelegate: recDecoder1{recorder: recorder{w.Disk, &res.Delegate}}})
		res.Err = err
		if err == nil {
			res.HasRes = true
			res.Counts1 = vr.FileCounts
			res.AllData = vr.AllDataOk
		}
	})
}

// Repair1 runs par1 Repair.
func (r *Run) Repair1(w *World, index string, doubleCheck bool, plan []simdisk.Fault) *OpResult {
	return r.runOp(w, fmt.Sprintf("repair1 dc=%v", doubleCheck), plan, SchedSpec{}, func(res *OpResult) {
		rr, err := par1.VerifRepair(w.Disk, index, par1.RepairOptions{DoubleCheck: doubleCheck, RepairDelegate: recDecoder1{recorder: recorder{w.Disk, &res.Delegate}}})
		res.Err = err
		res.Repaired = rr.RepairedPaths
		res.HasRes = err == nil
	})
}

// RecordCreated stores what Create wrote (path -> bytes) and the
// recovery exponents per recovery file, read back with the reference
// reader.
func (w *World) RecordCreated(r *Run, res *OpResult) {
	w.Created = map[string][]byte{}
	for _, a := range res.Writes() {
		if a.Err == "" {
			w.Created[a.Resolved] = a.Data
		}
	}
	if w.Par1 {
		return
	}
	idx, ok := w.Created[w.Index]
	if !ok {
		return
	}
	info := ref.ReadIndex(idx)
	for p, b := range w.Created {
		if p == w.Index {
			continue
		}
		exps, _ := ref.IntactRecoveryExponents(b, info.SetID)
		w.Exps[p] = exps
	}
}

// RecordRecreated records a Create that was run over an existing set:
// archive files of the earlier generation that this call did not write
// but that are still on disk stay part of the archive as it stands.
func (w *World) RecordRecreated(r *Run, res *OpResult, old map[string][]byte) {
	w.Exps = map[string][]int{}
	w.RecordCreated(r, res)
	adopted := false
	for p := range old {
		if _, ok := w.Created[p]; ok {
			continue
		}
		if b, ok := w.Disk.Get(p); ok {
			w.Created[p] = b
			adopted = true
		}
	}
	if !adopted || w.Par1 {
		return
	}
	idx, ok := w.Created[w.Index]
	if !ok {
		return
	}
	info := ref.ReadIndex(idx)
	for p, b := range w.Created {
		if p == w.Index {
			continue
		}
		exps, _ := ref.IntactRecoveryExponents(b, info.SetID)
		w.Exps[p] = exps
	}
}

// Truth2 is the reference model's view of a PAR2 world state.
type Truth2 struct {
	Scan ref.ScanResult
	// IntactExps: distinct exponents of intact recovery packets of the
	// set in files matching <base>.*.par2 beside the index.
	IntactExps []int
	// RecoveryDamaged: some matching file contains bytes outside
	// intact packets (gopar may then refuse the whole set).
	RecoveryDamaged bool
	// RecoveryAllSnapshots: every present matching file is
	// byte-identical to what Create wrote.
	RecoveryAllSnapshots bool
	IndexIntact          bool
	MatchingFiles        []string
	// MaxIntactAnySet: the largest number of distinct intact recovery
	// packets that any one recovery set id has among the matching files
	// (what a reader may truthfully report when the index on disk does
	// not identify the set any more and it takes the set from a volume).
	MaxIntactAnySet int
}

// TruthPar2 computes the reference view of the current disk state.
func (w *World) TruthPar2() (t Truth2) {
	t.Scan = ref.Scan(w.Files, w.S, w.Present())
	idx, ok := w.Disk.Get(w.Index)
	t.IndexIntact = ok && string(idx) == string(w.Created[w.Index])
	// the recovery set is the one Create wrote: its id is read from the
	// snapshot of the index (the index on disk may be damaged or gone,
	// which does not make the recovery blocks beside it any less intact)
	var setID [16]byte
	if snap, have := w.Created[w.Index]; have {
		setID = ref.ReadIndex(snap).SetID
	} else if ok {
		setID = ref.ReadIndex(idx).SetID
	}
	prefix := filepath.Join(w.Dir, w.Base) + "."
	t.RecoveryAllSnapshots = true
	seen := map[int]bool{}
	perSet := map[[16]byte]map[uint32]bool{}
	defer func() {
		for _, m := range perSet {
			if len(m) > t.MaxIntactAnySet {
				t.MaxIntactAnySet = len(m)
			}
		}
	}()
	for _, p := range w.Disk.SortedPaths() {
		if filepath.Dir(p) != w.Dir || !strings.HasPrefix(p, prefix) || !strings.HasSuffix(p, ".par2") || len(p) < len(prefix)+len(".par2") {
			continue
		}
		t.MatchingFiles = append(t.MatchingFiles, p)
		b, _ := w.Disk.Get(p)
		if snap, ok := w.Created[p]; !ok || string(snap) != string(b) {
			t.RecoveryAllSnapshots = false
		}
		exps, dmg := ref.IntactRecoveryExponents(b, setID)
		if dmg {
			t.RecoveryDamaged = true
		}
		pk, _ := ref.ParsePackets(b)
		for _, x := range pk {
			if e, ok := ref.RecoveryExponent(x); ok {
				if perSet[x.SetID] == nil {
					perSet[x.SetID] = map[uint32]bool{}
				}
				perSet[x.SetID][e] = true
			}
		}
		for _, e := range exps {
			seen[e] = true
		}
	}
	for e := range seen {
		t.IntactExps = append(t.IntactExps, e)
	}
	sort.Ints(t.IntactExps)
	return t
}

// GlobalSliceIndex maps the scanner's slice numbering (files in w.Files
// order) to the recovery set's numbering (files sorted by file id).
func (w *World) GlobalSliceIndex() []int {
	order := ref.RecoverySetOrder(w.Files) // order[k] = caller index of k-th recovery-set file
	counts := make([]int, len(w.Files))
	for i, f := range w.Files {
		counts[i] = (len(f.Data) + w.S - 1) / w.S
	}
	startInSet := make([]int, len(w.Files))
	pos := 0
	for _, fi := range order {
		startInSet[fi] = pos
		pos += counts[fi]
	}
	var out []int
	for i := range w.Files {
		for k := 0; k < counts[i]; k++ {
			out = append(out, startInSet[i]+k)
		}
	}
	return out
}

// SingularPar2 decides whether the reconstruction gopar has to attempt
// (missing slices known exactly; rows = lowest surviving exponents) is
// singular. determinable is false when lower != upper.
func (w *World) SingularPar2(t Truth2) (singular, determinable bool) {
	if t.Scan.Lower != t.Scan.Upper {
		return false, false
	}
	var missing []int
	g := w.GlobalSliceIndex()
	for i, f := range t.Scan.Found {
		if !f {
			missing = append(missing, g[i])
		}
	}
	sort.Ints(missing)
	if len(missing) == 0 || len(missing) > len(t.IntactExps) {
		return false, true
	}
	if len(missing) > 200 {
		return false, false
	}
	return ref.Par2Singular(t.IntactExps[:len(missing)], missing), true
}
