package engine

import (
	"bytes"
	"fmt"
	"os"
	"os/exec"
	"path/filepath"
	"runtime/debug"
	"sort"
	"strings"
	"time"
)

// RealWorld mirrors a World's simulated disk into a real scratch
// directory (tmpfs when available) so that gopar's production file
// layer (ioutil, filepath.Glob, filepath.Abs, the working directory)
// and the par binary are executed.
type RealWorld struct {
	W    *World
	Root string // scratch root; the simulated path p lives at Root+p
}

// Materialise writes every file of the simulated disk under a fresh
// scratch root.
func (r *Run) Materialise(w *World) *RealWorld {
	root := r.Scratch()
	rw := &RealWorld{W: w, Root: root}
	for d := range w.Disk.Dirs {
		os.MkdirAll(filepath.Join(root, d), 0755)
	}
	for _, p := range w.Disk.SortedPaths() {
		b, _ := w.Disk.Get(p)
		full := filepath.Join(root, p)
		os.MkdirAll(filepath.Dir(full), 0755)
		if err := os.WriteFile(full, b, 0644); err != nil {
			if _, by := w.Bystanders[p]; by {
				// an unrelated file the simulated disk accepted at a place a
				// real disk refuses (a directory of that name is needed):
				// the world simply does not have it
				delete(w.Bystanders, p)
				w.Disk.Remove(p)
				r.Count("materialise:bystander-dropped")
				continue
			}
			panic(fmt.Sprintf("materialise: %v", err))
		}
	}
	return rw
}

// Real returns the real path of a simulated absolute path.
func (rw *RealWorld) Real(p string) string { return filepath.Join(rw.Root, p) }

// Sync brings the real directory to the state of the simulated disk
// (used after world actions applied to the simulated disk).
func (rw *RealWorld) Sync() {
	want := map[string]bool{}
	for _, p := range rw.W.Disk.SortedPaths() {
		b, _ := rw.W.Disk.Get(p)
		full := rw.Real(p)
		want[full] = true
		cur, err := os.ReadFile(full)
		if err != nil || !bytes.Equal(cur, b) {
			os.MkdirAll(filepath.Dir(full), 0755)
			os.WriteFile(full, b, 0644)
		}
	}
	for p := range rw.Tree() {
		if !want[rw.Real(p)] {
			os.Remove(rw.Real(p))
		}
	}
}

// Tree reads the whole real tree back: simulated path -> bytes.
func (rw *RealWorld) Tree() map[string][]byte {
	out := map[string][]byte{}
	filepath.Walk(rw.Root, func(p string, info os.FileInfo, err error) error {
		if err != nil || info.IsDir() {
			return nil
		}
		b, err := os.ReadFile(p)
		if err == nil {
			out[strings.TrimPrefix(p, rw.Root)] = b
		}
		return nil
	})
	return out
}

// Pull copies the real tree back into the simulated disk so that the
// reference model's truth functions see the real state.
func (rw *RealWorld) Pull() {
	tree := rw.Tree()
	for _, p := range rw.W.Disk.SortedPaths() {
		if _, ok := tree[p]; !ok {
			rw.W.Disk.Remove(p)
		}
	}
	for p, b := range tree {
		rw.W.Disk.Put(p, b)
	}
}

// CLIResult is the outcome of one invocation of the par binary.
type CLIResult struct {
	Args   []string
	Dir    string
	Status int
	Stdout string
	Stderr string
	Err    error
}

// ParBin returns the path of the par binary built by the check.
func ParBin() string { return os.Getenv("VERIF_PAR_BIN") }

// RunPar runs the par binary with a timeout.
func (r *Run) RunPar(dir string, args ...string) CLIResult {
	cmd := exec.Command(ParBin(), args...)
	cmd.Dir = dir
	var so, se bytes.Buffer
	cmd.Stdout = &limitedWriter{w: &so, n: 1 << 18}
	cmd.Stderr = &limitedWriter{w: &se, n: 1 << 18}
	res := CLIResult{Args: args, Dir: dir}
	if err := cmd.Start(); err != nil {
		res.Err = err
		res.Status = -1
		return res
	}
	done := make(chan error, 1)
	go func() { done <- cmd.Wait() }()
	select {
	case err := <-done:
		res.Err = err
	case <-time.After(60 * time.Second):
		cmd.Process.Kill()
		<-done
		res.Err = fmt.Errorf("timeout")
		res.Status = -2
	}
	if res.Status == 0 {
		res.Status = cmd.ProcessState.ExitCode()
	}
	res.Stdout = so.String()
	res.Stderr = se.String()
	r.Logf("cli dir=%s par %s -> status %d", strings.TrimPrefix(dir, r.scratchRoot(dir)), strings.Join(stripRoot(args, r.scratchRoot(dir)), " "), res.Status)
	r.Count("op:cli")
	return res
}

func (r *Run) scratchRoot(p string) string {
	for _, s := range r.scratch {
		if strings.HasPrefix(p, s) {
			return s
		}
	}
	return "\x00"
}

func stripRoot(args []string, root string) []string {
	out := make([]string, len(args))
	for i, a := range args {
		out[i] = strings.Replace(a, root, "", -1)
	}
	return out
}

// archiveFiles lists <dir>/<base>.* files of the real set directory:
// name -> bytes.
func (rw *RealWorld) archiveFiles() map[string][]byte {
	out := map[string][]byte{}
	dir := rw.Real(rw.W.Dir)
	ents, _ := os.ReadDir(dir)
	for _, e := range ents {
		if e.IsDir() || !strings.HasPrefix(e.Name(), rw.W.Base+".") {
			continue
		}
		if rw.W.isArchiveMember(filepath.Join(rw.W.Dir, e.Name())) {
			b, _ := os.ReadFile(filepath.Join(dir, e.Name()))
			out[e.Name()] = b
		}
	}
	return out
}

func (rw *RealWorld) removeArchive() {
	dir := rw.Real(rw.W.Dir)
	for name := range rw.archiveFiles() {
		os.Remove(filepath.Join(dir, name))
	}
}

func diffFileSets(want, got map[string][]byte) string {
	var names []string
	for n := range want {
		names = append(names, n)
	}
	for n := range got {
		if _, ok := want[n]; !ok {
			names = append(names, n)
		}
	}
	sort.Strings(names)
	for _, n := range names {
		w, wok := want[n]
		g, gok := got[n]
		if !wok {
			return fmt.Sprintf("extra file %s", n)
		}
		if !gok {
			return fmt.Sprintf("missing file %s", n)
		}
		if !bytes.Equal(w, g) {
			return fmt.Sprintf("%s differs at byte %d (%d vs %d bytes)", n, firstDiff(w, g), len(g), len(w))
		}
	}
	return ""
}

// realOp runs fn (a public-API call on the real directory), capturing
// panics; paths in error texts are stripped of the scratch root so that
// logs stay deterministic.
func (r *Run) realOp(rw *RealWorld, op string, fn func(res *OpResult)) *OpResult {
	res := &OpResult{Op: op}
	before := rw.Tree()
	func() {
		defer func() {
			if x := recover(); x != nil {
				if vp, ok := x.(violationPanic); ok {
					panic(vp)
				}
				if ks, ok := x.(knownStop); ok {
					panic(ks)
				}
				res.Panic = strings.Replace(fmt.Sprintf("%v\n%s", x, trimStack(debugStack())), rw.Root, "", -1)
			}
		}()
		fn(res)
	}()
	if res.Err != nil {
		res.Err = fmt.Errorf("%s", strings.Replace(res.Err.Error(), rw.Root, "", -1))
	}
	after := rw.Tree()
	res.Before, res.After = before, after
	for i, p := range res.Repaired {
		res.Repaired[i] = strings.TrimPrefix(p, rw.Root)
	}
	r.Logf("realop %s -> %s", op, res.errString())
	r.Count("op:" + strings.SplitN(op, " ", 2)[0])
	return res
}

func debugStack() []byte { return debug.Stack() }
