package engine

import (
	"fmt"
	"path/filepath"
	"sort"
	"strings"
)

// ---- shared oracles for PAR2 operations ----

// noPanic reports a panic of the operation as a violation of the run's
// property (a panic is never an acceptable outcome of any operation).
func (r *Run) noPanic(res *OpResult) {
	if res.Panic != "" {
		r.Violate("panic", "%s panicked: %s", res.Op, strings.Replace(res.Panic, "\n", " | ", -1))
	}
	for _, v := range res.SchedV {
		if v.Kind == "worker-panic" || v.Kind == "hang" {
			r.Violate(v.Kind, "%s: %s", res.Op, v.Detail)
		}
	}
}

// oracleVerify2 checks a Verify result against the reference truth
// (property C03's clauses; also used by C13/C06/C16 for truthfulness).
// strictRecovery: require the recovery-block count to equal the intact
// count (false: only forbid over-reporting).
func (r *Run) oracleVerify2(w *World, res *OpResult, t Truth2, strictRecovery bool, lowerToo bool) {
	if !res.HasRes {
		return
	}
	c := res.Counts
	sc := t.Scan
	if c.UsableDataShardCount+c.UnusableDataShardCount != sc.N {
		r.Violate("counts-not-N", "usable %d + unusable %d != %d protected slices", c.UsableDataShardCount, c.UnusableDataShardCount, sc.N)
	}
	if c.UsableDataShardCount > sc.Upper {
		r.Violate("usable-above-upper", "Verify counts %d usable slices but only %d of %d slices have their content anywhere in the surviving files", c.UsableDataShardCount, sc.Upper, sc.N)
	}
	if lowerToo && c.UsableDataShardCount < sc.Lower {
		r.Violate("usable-below-lower", "Verify counts %d usable slices but %d of %d slices are cleanly present (intact file or non-overlapped occurrence)", c.UsableDataShardCount, sc.Lower, sc.N)
	}
	intact := len(t.IntactExps)
	upperIntact := intact
	if !t.IndexIntact && t.MaxIntactAnySet > upperIntact {
		// the index on disk no longer identifies the set: a reader that
		// takes the set description from a volume file may end up with
		// another generation's set, whose intact blocks are intact too
		upperIntact = t.MaxIntactAnySet
	}
	if c.UsableParityShardCount > upperIntact {
		r.Violate("recovery-count-mismatch", "more: Verify counts %d usable recovery blocks, %d distinct intact blocks are stored beside the index", c.UsableParityShardCount, intact)
	}
	if strictRecovery && c.UsableParityShardCount < intact {
		r.Violate("recovery-count-mismatch", "fewer: Verify counts %d usable recovery blocks, %d distinct intact blocks are stored beside the index (%v)", c.UsableParityShardCount, intact, baseNamesOf(t.MatchingFiles))
	}
	wantPossible := c.UnusableDataShardCount <= c.UsableParityShardCount
	if c.RepairPossible() != wantPossible {
		r.Violate("possible-mismatch", "RepairPossible()=%v with %d unusable slices and %d usable recovery blocks", c.RepairPossible(), c.UnusableDataShardCount, c.UsableParityShardCount)
	}
	if !c.RepairNeeded() && !w.AllIntact() {
		sig := "upper<N"
		if sc.Upper == sc.N {
			sig = "upper==N"
		}
		r.Violate("verify-clean-but-damaged", "%s: Verify says no repair needed but %s (usable=%d/%d)", sig, w.FirstDamaged(), c.UsableDataShardCount, sc.N)
	}
}

func baseNamesOf(ps []string) []string {
	out := make([]string, len(ps))
	for i, p := range ps {
		out[i] = filepath.Base(p)
	}
	return out
}

// premiseRepair2 decides C01's premise on the reference truth: the
// index and every recovery file present are exactly what Create wrote,
// and the missing slices (counted pessimistically) do not outnumber the
// surviving recovery blocks.
func premiseRepair2(t Truth2) bool {
	return t.IndexIntact && t.RecoveryAllSnapshots && !t.RecoveryDamaged && t.Scan.N-t.Scan.Lower <= len(t.IntactExps)
}

// oracleRepair2 checks the outcome of Repair for C01 (and users).
func (r *Run) oracleRepair2(w *World, res *OpResult, t Truth2) {
	if res.Err == nil && res.Panic == "" && !res.Crashed {
		if !w.AllIntact() {
			r.Violate("success-not-restored", "Repair returned success but %s", w.FirstDamaged())
		}
		return
	}
	if !premiseRepair2(t) {
		r.Count("outcome:repair-failed-beyond-premise")
		return
	}
	singular, det := w.SingularPar2(t)
	if det && singular {
		r.Count("outcome:singular-permitted")
		r.Probe("singular-case")
		return
	}
	if !det {
		r.Count("undetermined_singular")
		return
	}
	k := t.Scan.N - t.Scan.Upper
	r.Violate("repair-failed-within-capacity", "Repair failed (%s) although %d of %d slices are present, %d missing <= %d intact recovery blocks %v, matrix non-singular", res.errString(), t.Scan.Lower, t.Scan.N, k, len(t.IntactExps), t.IntactExps)
}

// oracleWrites checks the write discipline of an operation over the
// access log and the before/after snapshots (property C02).
//
//	kind "verify": no write at all, tree unchanged
//	kind "create": writes only to <base>.par2 / <base>.vol*.par2 (.par/.pNN), inputs unchanged
//	kind "repair": every write targets a protected file, carries the original bytes and is listed
func (r *Run) oracleWrites(w *World, res *OpResult, kind string) {
	protected := map[string]int{}
	for i := range w.Files {
		protected[w.Path(i)] = i
	}
	listed := map[string]bool{}
	for _, p := range res.Repaired {
		listed[w.Disk.Resolve(p)] = true
	}
	written := map[string]bool{}
	for _, a := range res.Writes() {
		switch kind {
		case "verify":
			r.Violate("verify-wrote", "Verify wrote %s (%d bytes)", a.Resolved, a.N)
		case "create":
			if !w.isArchiveMember(a.Resolved) {
				r.Violate("create-touched-input", "Create wrote %s which is not a member of the archive %s", a.Resolved, w.Base)
			}
		case "repair":
			fi, ok := protected[a.Resolved]
			if !ok {
				r.Violate("wrote-foreign-path", "Repair wrote %s which is not a protected file", a.Resolved)
				continue
			}
			older, hasOlder := w.OlderGen[a.Resolved]
			// (the bytes an older generation of the set protected are exact
			// originals too)
			olderBytes := hasOlder && string(a.Data) == string(older)
			if a.Fault == 0 && string(a.Data) != string(w.Files[fi].Data) && !olderBytes {
				r.Violate("wrote-non-original", "Repair wrote %d bytes to %q that differ from the protected %d bytes", len(a.Data), w.Files[fi].Name, len(w.Files[fi].Data))
			}
			if a.Err == "" && !listed[a.Resolved] {
				r.Violate("wrote-unlisted", "Repair wrote %q but did not list it in RepairedPaths %v", w.Files[fi].Name, res.Repaired)
			}
			// intact protected files belong to "every other file": Repair
			// has no business writing them at all (an interrupted rewrite
			// would destroy a healthy file)
			if prev, ok := res.Before[a.Resolved]; ok && string(prev) == string(w.Files[fi].Data) && !olderBytes {
				r.Violate("rewrote-intact-file", "Repair wrote %q although it was intact before the call", w.Files[fi].Name)
			}
		}
		if a.Err == "" || a.Kept > 0 || a.Fault != 0 {
			written[a.Resolved] = true
		}
	}
	// every other file byte-identical; nothing created or deleted
	var paths []string
	seen := map[string]bool{}
	for p := range res.Before {
		paths = append(paths, p)
		seen[p] = true
	}
	for p := range res.After {
		if !seen[p] {
			paths = append(paths, p)
		}
	}
	sort.Strings(paths)
	for _, p := range paths {
		if written[p] {
			continue
		}
		b, bok := res.Before[p]
		a, aok := res.After[p]
		if bok != aok || string(a) != string(b) {
			what := "modified"
			if !aok {
				what = "deleted"
			} else if !bok {
				what = "created"
			}
			k := "bystander-changed"
			if kind == "verify" {
				k = "verify-wrote"
			} else if kind == "create" {
				k = "create-touched-input"
			}
			r.Violate(k, "%s %s %s without a write call to it", res.Op, what, p)
		}
	}
	if kind == "create" {
		for i := range w.Files {
			if string(res.After[w.Path(i)]) != string(res.Before[w.Path(i)]) {
				r.Violate("create-touched-input", "Create modified its input %q", w.Files[i].Name)
			}
		}
	}
}

// isArchiveMember reports whether p is <dir>/<base>.par2 or
// <dir>/<base>.vol*.par2 (PAR2), <base>.par or <base>.pNN (PAR1).
func (w *World) isArchiveMember(p string) bool {
	if filepath.Dir(p) != w.Dir {
		return false
	}
	name := filepath.Base(p)
	if !strings.HasPrefix(name, w.Base+".") {
		return false
	}
	rest := name[len(w.Base)+1:]
	if w.Par1 {
		if rest == "par" {
			return true
		}
		return len(rest) >= 3 && rest[0] == 'p' && allDigits(rest[1:])
	}
	if rest == "par2" {
		return true
	}
	return strings.HasPrefix(rest, "vol") && strings.HasSuffix(rest, ".par2")
}

func allDigits(s string) bool {
	for _, c := range s {
		if c < '0' || c > '9' {
			return false
		}
	}
	return len(s) > 0
}

func sizeClass(n int) string {
	switch {
	case n <= 1:
		return fmt.Sprint(n)
	case n <= 4:
		return "2-4"
	case n <= 16:
		return "5-16"
	case n <= 256:
		return "17-256"
	case n <= 4096:
		return "257-4096"
	}
	return ">4096"
}
