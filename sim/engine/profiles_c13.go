package engine

import (
	"fmt"
	"path/filepath"
	"sort"
	"sync"

	"github.com/akalin/gopar/par1"
	"github.com/akalin/gopar/par2"

	"verifsim/ref"
	"verifsim/simdisk"
)

func init() {
	Register(&Profile{Name: "crash-corrupt", Prop: "C13", Weight: 10, Quick: 40000, Thorough: 1000000, Sweep: c13SweepCount, Fn: crashCorrupt})
	SetMeta("C13", &Meta{
		Level: "fault_enumeration",
		Rule:  "deterministic sweep over fixed small PAR2 and PAR1 sets: every packet boundary / header field of every archive file x {truncate at, inside header, inside body; flip MSB/LSB of first and last byte of each field (thorough: every bit of every header byte, every truncation offset)}, deletion of each file and of all recovery files, emptied and garbage files, and crash during Create at every write with the last write torn at every packet boundary; each with the data intact and with one data file lost; plus seeded runs with structure-aware random faults on random sets. A case is non-trivial when the fault changed an archive or data file (or Create was crashed) and Verify and Repair were both run on the result; distinct by (format, faulted file role, fault kind, placement class, data state, outcome of Verify and of Repair). The seeded part also overwrites a recovery file with a sibling recovery file or the index (valid bytes in the wrong place). corrupt-real: data-file damage with the production file layer on a tmpfs directory; oracles as for the simulated disk (counts truthful, only exact originals written, success means restored).",
		Assumptions: []string{
			"sweep sets are fixed small sets (2-3 files); the seeded part varies sets",
			"'truthful' is judged by the reference reader (intact recovery packets per the PAR 2.0 framing and MD5) and the slice-occurrence scanner; for PAR1 by byte comparison with what Create wrote",
			"a child process that dies (unrecovered panic in any goroutine, fatal error) or a run that exceeds the watchdog is reported as child-died / hang",
		},
		ProbesWant: []string{"cut-at-packet-boundary", "cut-after-first-packet", "length-field-msb", "no-recovery-file-left", "crash-torn-at-boundary", "crash-before-index-complete", "par1-no-volume-left", "index-damaged"},
	})
}

// c13Case is one deterministic sweep case.
type c13Case struct {
	Par1     bool
	World    int
	Fault    string // truncate, flip, delete, delete-all-recovery, empty, garbage, crash
	File     string // base name of the faulted archive file
	Off      int
	Bit      int
	Write    int // crash: index of the Create write
	Keep     int // crash: bytes kept of that write
	DataLost bool
	Place    string // placement class for evidence
}

type c13Fixed struct {
	par1    bool
	files   []ref.Protected
	s, r    int
	created map[string][]byte // base name -> bytes
	order   []string          // write order (base names)
}

var (
	c13Once  sync.Once
	c13Quick []c13Case
	c13Thoro []c13Case
	c13Sets  []*c13Fixed
)

func c13FixedSets() []*c13Fixed {
	nameFmt := "f%d.dat"
	mk := func(par1 bool, s, r int, sizes ...int) *c13Fixed {
		f := &c13Fixed{par1: par1, s: s, r: r}
		for i, n := range sizes {
			f.files = append(f.files, ref.Protected{Name: fmt.Sprintf(nameFmt, i), Data: expandContent(ckRandom, uint64(1000+i), n, 4)})
		}
		return f
	}
	// PAR1 sets with very short names: the offsets stored in the header
	// then fall just above powers of two (0x9a, 0x114)
	short := func(r int, names []string, sizes ...int) *c13Fixed {
		f := &c13Fixed{par1: true, r: r}
		for i, n := range sizes {
			f.files = append(f.files, ref.Protected{Name: names[i], Data: expandContent(ckRandom, uint64(2000+i), n, 4)})
		}
		return f
	}
	return []*c13Fixed{
		mk(false, 8, 3, 5, 21),
		mk(false, 4, 2, 9, 4, 1),
		mk(false, 64, 4, 200, 64),
		mk(true, 0, 2, 3, 17, 40),
		mk(true, 0, 3, 30, 1),
		short(1, []string{"a"}, 9),
		short(2, []string{"ab", "cd", "ef"}, 5, 12, 3),
	}
}

// buildFixed puts a fixed set on a fresh disk and runs Create silently.
func (f *c13Fixed) disk() (*simdisk.Mem, string) {
	d := simdisk.NewMem()
	d.MkdirAll("/w/set")
	d.Cwd = "/w/set"
	for _, p := range f.files {
		d.Put("/w/set/"+p.Name, p.Data)
	}
	ext := ".par2"
	if f.par1 {
		ext = ".par"
	}
	return d, "/w/set/set" + ext
}

func (f *c13Fixed) paths() []string {
	var out []string
	for _, p := range f.files {
		out = append(out, "/w/set/"+p.Name)
	}
	return out
}

func (f *c13Fixed) create() error {
	d, index := f.disk()
	var err error
	if f.par1 {
		err = par1.VerifCreate(d, index, f.paths(), par1.CreateOptions{NumParityFiles: f.r})
	} else {
		err = par2.VerifCreate(d, index, f.paths(), par2.CreateOptions{SliceByteCount: f.s, NumParityShards: f.r, NumGoroutines: 1})
	}
	if err != nil {
		return err
	}
	f.created = map[string][]byte{}
	for _, a := range d.Log {
		if a.Op == 'W' {
			f.created[filepath.Base(a.Resolved)] = a.Data
			f.order = append(f.order, filepath.Base(a.Resolved))
		}
	}
	return nil
}

func c13Build() {
	c13Sets = c13FixedSets()
	for wi, f := range c13Sets {
		if err := f.create(); err != nil {
			// a failing Create on the fixed sets is reported by the first run
			continue
		}
		names := append([]string(nil), f.order...)
		sort.Strings(names)
		add := func(thorough bool, c c13Case) {
			c.Par1 = f.par1
			c.World = wi
			for _, lost := range []bool{false, true} {
				c.DataLost = lost
				c13Thoro = append(c13Thoro, c)
				if !thorough {
					c13Quick = append(c13Quick, c)
				}
			}
		}
		for _, name := range names {
			b := f.created[name]
			add(false, c13Case{Fault: "delete", File: name, Place: "whole-file"})
			add(false, c13Case{Fault: "empty", File: name, Place: "whole-file"})
			add(false, c13Case{Fault: "garbage", File: name, Place: "whole-file"})
			if !f.par1 {
				pkts, _ := ref.ParsePackets(b)
				fields := []struct {
					name     string
					off, len int
				}{{"magic", 0, 8}, {"length", 8, 8}, {"md5", 16, 16}, {"setid", 32, 16}, {"type", 48, 16}}
				for pi, p := range pkts {
					pl := fmt.Sprintf("packet%d", pi)
					// truncation
					add(false, c13Case{Fault: "truncate", File: name, Off: p.Offset, Place: "boundary"})
					for _, d := range []int{1, 8, 12, 24, 40, 63, 64, 65, 66, 67, 68, 72} {
						if p.Offset+d < len(b) {
							add(false, c13Case{Fault: "truncate", File: name, Off: p.Offset + d, Place: "in-header+" + fmt.Sprint(d)})
						}
					}
					if p.Length > 72 {
						add(false, c13Case{Fault: "truncate", File: name, Off: p.Offset + 64 + (p.Length-64)/2, Place: "in-body"})
						add(false, c13Case{Fault: "truncate", File: name, Off: p.Offset + p.Length - 1, Place: "last-byte"})
					}
					// flips: quick = MSB and LSB of first and last byte of each field
					for _, fl := range fields {
						for _, bo := range []int{0, fl.len - 1} {
							for _, bit := range []int{7, 0} {
								add(false, c13Case{Fault: "flip", File: name, Off: p.Offset + fl.off + bo, Bit: bit, Place: pl + "-" + fl.name})
							}
						}
						// thorough: every bit of every header byte
						for bo := 0; bo < fl.len; bo++ {
							for bit := 0; bit < 8; bit++ {
								if (bo == 0 || bo == fl.len-1) && (bit == 0 || bit == 7) {
									continue
								}
								add(true, c13Case{Fault: "flip", File: name, Off: p.Offset + fl.off + bo, Bit: bit, Place: pl + "-" + fl.name})
							}
						}
					}
					// a few body bits
					if p.Length > 64 {
						add(false, c13Case{Fault: "flip", File: name, Off: p.Offset + 64, Bit: 0, Place: pl + "-body"})
						add(false, c13Case{Fault: "flip", File: name, Off: p.Offset + p.Length - 1, Bit: 7, Place: pl + "-body"})
						for o := 65; o < p.Length-1; o += 7 {
							add(true, c13Case{Fault: "flip", File: name, Off: p.Offset + o, Bit: o % 8, Place: pl + "-body"})
						}
					}
				}
				// thorough: every truncation offset
				for o := 0; o < len(b); o++ {
					add(true, c13Case{Fault: "truncate", File: name, Off: o, Place: "every-offset"})
				}
			} else {
				v := ref.ParsePar1(b)
				// header fields
				hf := []struct {
					name     string
					off, len int
				}{{"id", 0, 8}, {"version", 8, 8}, {"control-hash", 16, 16}, {"set-hash", 32, 16}, {"volume-number", 48, 8}, {"file-count", 56, 8}, {"list-offset", 64, 8}, {"list-bytes", 72, 8}, {"data-offset", 80, 8}, {"data-bytes", 88, 8}}
				for _, fl := range hf {
					for _, bo := range []int{0, fl.len - 1} {
						for _, bit := range []int{7, 0} {
							add(false, c13Case{Fault: "flip", File: name, Off: fl.off + bo, Bit: bit, Place: "header-" + fl.name})
						}
					}
					add(false, c13Case{Fault: "truncate", File: name, Off: fl.off, Place: "header-" + fl.name})
					// every bit of the numeric fields that are read before the
					// control hash has vouched for them
					if fl.off >= 48 {
						for bo := 0; bo < fl.len; bo++ {
							for bit := 0; bit < 8; bit++ {
								if (bo == 0 || bo == fl.len-1) && (bit == 0 || bit == 7) {
									continue
								}
								add(false, c13Case{Fault: "flip", File: name, Off: fl.off + bo, Bit: bit, Place: "header-" + fl.name})
							}
						}
					}
				}
				for ei, e := range v.Entries {
					for _, d := range []int{0, 7, 8, 16, 24, 40, 56, 57} {
						if e.Offset+d < len(b) {
							add(false, c13Case{Fault: "truncate", File: name, Off: e.Offset + d, Place: fmt.Sprintf("entry%d+%d", ei, d)})
							add(false, c13Case{Fault: "flip", File: name, Off: e.Offset + d, Bit: 7, Place: fmt.Sprintf("entry%d+%d", ei, d)})
							add(false, c13Case{Fault: "flip", File: name, Off: e.Offset + d, Bit: 0, Place: fmt.Sprintf("entry%d+%d", ei, d)})
						}
					}
				}
				add(false, c13Case{Fault: "truncate", File: name, Off: len(b) - 1, Place: "last-byte"})
				add(false, c13Case{Fault: "flip", File: name, Off: len(b) - 1, Bit: 3, Place: "payload"})
				for o := 0; o < len(b); o++ {
					add(true, c13Case{Fault: "truncate", File: name, Off: o, Place: "every-offset"})
					add(true, c13Case{Fault: "flip", File: name, Off: o, Bit: o % 8, Place: "every-byte"})
				}
			}
		}
		add(false, c13Case{Fault: "delete-all-recovery", Place: "whole-file"})
		// crash during Create: every write, torn at every packet boundary / a few offsets
		for wi2, name := range f.order {
			b := f.created[name]
			keeps := map[int]bool{0: true, len(b): true, len(b) / 2: true, len(b) - 1: true, 1: true}
			if !f.par1 {
				pkts, _ := ref.ParsePackets(b)
				for _, p := range pkts {
					keeps[p.Offset] = true
					keeps[p.Offset+32] = true
				}
			} else {
				keeps[96] = true
				keeps[32] = true
			}
			var ks []int
			for k := range keeps {
				if k >= 0 && k <= len(b) {
					ks = append(ks, k)
				}
			}
			sort.Ints(ks)
			for _, k := range ks {
				add(false, c13Case{Fault: "crash", File: name, Write: wi2, Keep: k, Place: "create-write"})
			}
		}
	}
}

func c13SweepCount(tier string) int {
	c13Once.Do(c13Build)
	if tier == "thorough" {
		return len(c13Thoro)
	}
	return len(c13Quick)
}

func crashCorrupt(r *Run) {
	c13Once.Do(c13Build)
	if r.SweepCase >= 0 {
		cases := c13Quick
		if r.Thorough() {
			cases = c13Thoro
		}
		c13RunCase(r, cases[r.SweepCase])
		return
	}
	c13Random(r)
}

// worldFromFixed builds a World around a fixed set whose Create output
// is known.
func worldFromFixed(r *Run, f *c13Fixed) *World {
	d, index := f.disk()
	w := &World{Par1: f.par1, Disk: d, Dir: "/w/set", Base: "set", Index: index, Files: f.files, S: f.s, R: f.r, G: 1, Created: map[string][]byte{}, Bystanders: map[string][]byte{}, Exps: map[string][]int{}}
	if !f.par1 {
		for _, p := range f.files {
			w.N += (len(p.Data) + f.s - 1) / f.s
		}
	}
	return w
}

func c13RunCase(r *Run, c c13Case) {
	f := c13Sets[c.World]
	if f.created == nil {
		r.Violate("create-failed", "Create failed on fixed sweep set %d", c.World)
	}
	w := worldFromFixed(r, f)
	r.Logf("sweep case world=%d par1=%v fault=%s file=%s off=%d bit=%d write=%d keep=%d dataLost=%v place=%s", c.World, c.Par1, c.Fault, c.File, c.Off, c.Bit, c.Write, c.Keep, c.DataLost, c.Place)
	changed := false
	if c.Fault == "crash" {
		// learn nothing: the write order is fixed; the I/O index of write
		// k is (number of reads) + k
		plan := []simdisk.Fault{{Index: len(f.files) + c.Write, Kind: simdisk.Crash, Keep: c.Keep}}
		var cre *OpResult
		if f.par1 {
			cre = r.Create1(w, w.Index, f.paths(), plan)
		} else {
			cre = r.Create2(w, f.paths(), plan, SchedSpec{})
		}
		r.noPanic(cre)
		if !cre.Crashed {
			r.Violate("infra-crash-not-fired", "planned crash at write %d did not fire", c.Write)
		}
		for name, b := range f.created {
			w.Created["/w/set/"+name] = b
		}
		changed = true
		r.Count("fault:crash")
		b := f.created[c.File]
		if c.Keep > 0 && c.Keep < len(b) {
			r.Probe("crash-torn-mid-file")
		}
		if !f.par1 {
			pk, _ := ref.ParsePackets(b)
			for _, p := range pk {
				if p.Offset == c.Keep && c.Keep > 0 {
					r.Probe("crash-torn-at-boundary")
				}
			}
		}
		if c.Write == 0 {
			r.Probe("crash-before-index-complete")
		}
	} else {
		for name, b := range f.created {
			w.Disk.Put("/w/set/"+name, b)
			w.Created["/w/set/"+name] = b
		}
		changed = w.applyArchiveFault(r, c.Fault, "/w/set/"+c.File, c.Off, c.Bit)
		if !f.par1 && c.Fault == "truncate" {
			pk, _ := ref.ParsePackets(f.created[c.File])
			for i, p := range pk {
				if p.Offset == c.Off && c.Off > 0 {
					r.Probe("cut-at-packet-boundary")
					if i == 1 {
						r.Probe("cut-after-first-packet")
					}
				}
			}
		}
		if !f.par1 && c.Fault == "flip" && c.Bit == 7 {
			pk, _ := ref.ParsePackets(f.created[c.File])
			for _, p := range pk {
				if p.Offset+15 == c.Off {
					r.Probe("length-field-msb")
				}
			}
		}
	}
	if !f.par1 {
		w.Exps = map[string][]int{}
		info := ref.ReadIndex(f.created["set.par2"])
		for p, b := range w.Created {
			if p != w.Index {
				w.Exps[p], _ = ref.IntactRecoveryExponents(b, info.SetID)
			}
		}
	}
	if c.DataLost {
		w.Disk.Remove(w.Path(len(w.Files) - 1))
		r.Logf("data file %q lost", w.Files[len(w.Files)-1].Name)
		r.Count("damage:delete")
	}
	vout, rout := c13Observe(r, w, r.SweepCase%2 == 1)
	r.Class = fmt.Sprintf("sweep par1=%v fault=%s file=%s place=%s lost=%v v=%s r=%s", c.Par1, c.Fault, fileRole(c.File), c.Place, c.DataLost, vout, rout)
	r.Nontriv = changed
}

func fileRole(name string) string {
	switch {
	case name == "":
		return "-"
	case filepath.Ext(name) == ".par" || (filepath.Ext(name) == ".par2" && len(name) == len("set.par2")):
		return "index"
	}
	return "recovery"
}

// applyArchiveFault damages one archive file. It reports whether the
// disk changed.
func (w *World) applyArchiveFault(r *Run, fault, path string, off, bit int) bool {
	b, ok := w.Disk.Get(path)
	b = append([]byte(nil), b...)
	switch fault {
	case "delete":
		if !ok {
			return false
		}
		w.Disk.Remove(path)
	case "delete-all-recovery":
		n := 0
		for p := range w.Created {
			if p != w.Index {
				if _, ok := w.Disk.Get(p); ok {
					w.Disk.Remove(p)
					n++
				}
			}
		}
		r.Probe("no-recovery-file-left")
		if w.Par1 {
			r.Probe("par1-no-volume-left")
		}
		r.Count("fault:delete-all-recovery")
		return n > 0
	case "empty":
		w.Disk.Put(path, []byte{})
	case "garbage":
		g := prng{s: uint64(len(b)) + 99}
		for i := range b {
			b[i] = byte(g.next())
		}
		w.Disk.Put(path, b)
	case "truncate":
		if off > len(b) {
			off = len(b)
		}
		w.Disk.Put(path, b[:off])
	case "flip":
		if off >= len(b) {
			return false
		}
		b[off] ^= 1 << uint(bit)
		w.Disk.Put(path, b)
	}
	if path == w.Index {
		r.Probe("index-damaged")
	}
	r.Count("fault:" + fault)
	return true
}

// c13Observe runs Verify and Repair on the damaged directory and checks
// the C13 oracles: normal termination, truthful results, and Repair's
// write discipline. It returns outcome classes for evidence.
func c13Observe(r *Run, w *World, doubleCheck bool) (string, string) {
	vout, rout := "err", "err"
	if w.Par1 {
		tr := w.TruthPar1()
		v := r.Verify1(w, w.Index, doubleCheck, nil)
		r.noPanic(v)
		r.oracleVerify1(w, v, tr, false)
		r.oracleWrites(w, v, "verify")
		if v.HasRes {
			vout = fmt.Sprintf("res(u%d/p%d)", v.Counts1.UnusableDataFileCount, v.Counts1.UsableParityFileCount)
			if !v.Counts1.RepairNeeded() && !w.AllIntact() {
				r.Violate("verify-clean-but-damaged", "PAR1 Verify says no repair needed but %s", w.FirstDamaged())
			}
		}
		rep := r.Repair1(w, w.Index, doubleCheck, nil)
		r.noPanic(rep)
		r.oracleWrites(w, rep, "repair")
		if rep.Err == nil {
			rout = "ok"
			if !w.AllIntact() && !w.allIntactOrOlder() {
				r.Violate("success-not-restored", "PAR1 Repair returned success but %s", w.FirstDamaged())
			}
		}
		return vout, rout
	}
	tr := w.TruthPar2()
	v := r.Verify2(w, w.Index, 1, nil, SchedSpec{})
	r.noPanic(v)
	r.oracleVerify2(w, v, tr, true, false)
	r.oracleWrites(w, v, "verify")
	if v.HasRes {
		vout = fmt.Sprintf("res(u%d/p%d)", v.Counts.UnusableDataShardCount, v.Counts.UsableParityShardCount)
	}
	rep := r.Repair2(w, w.Index, 2, doubleCheck, nil, SchedSpec{})
	r.noPanic(rep)
	r.oracleWrites(w, rep, "repair")
	if rep.Err == nil {
		rout = "ok"
		if !w.AllIntact() && !w.allIntactOrOlder() {
			r.Violate("success-not-restored", "Repair returned success but %s", w.FirstDamaged())
		}
	}
	return vout, rout
}

// allIntactOrOlder: every protected file holds its bytes or those of the
// older generation of the set (worlds with OlderGen only).
func (w *World) allIntactOrOlder() bool {
	if len(w.OlderGen) == 0 {
		return false
	}
	for i := range w.Files {
		if w.Intact(i) {
			continue
		}
		cur, ok := w.Disk.Get(w.Path(i))
		older, has := w.OlderGen[w.Path(i)]
		if !ok || !has || string(cur) != string(older) {
			return false
		}
	}
	return true
}

// c13Random: seeded structure-aware faults on a random set.
func c13Random(r *Run) {
	t := r.T
	par1Set := t.Bool(1, 3, "par1")
	// mostly tiny sets (structure matters, not size); sometimes files
	// beyond the 16 KiB boundary of the file hashes
	small := !t.Bool(1, 5, "allow-16k")
	w := GenWorld(r, GenOpts{Par1: par1Set, MaxFiles: 5, SmallOnly: small, MaxR: 5})
	if !small && !par1Set && w.S >= 16 && t.Bool(1, 2, "grow16k") {
		w.grow16k(r)
	}
	if par1Set && t.Bool(1, 15, "par1-volume-count-at-the-limit") {
		// as many parity volumes as the two-digit volume extensions allow,
		// and a few more (Create accepts them and writes .p100, .p101, ...)
		w.R = []int{98, 99, 100, 101, 120}[t.Draw(5, "limit-R")]
		r.Probe("par1-volume-count-around-99")
	}
	var cre *OpResult
	crashAt := -1
	if t.Bool(1, 4, "crash-create") {
		crashAt = 0
	}
	// fault-free Create first (on a clone) to learn the write sequence
	clone := *w
	clone.Disk = w.Disk.Clone()
	if par1Set {
		cre = r.Create1(&clone, w.Index, w.FilePaths(), nil)
	} else {
		cre = r.Create2(&clone, w.FilePaths(), nil, SchedSpec{})
	}
	r.noPanic(cre)
	if cre.Err != nil {
		r.Violate("create-failed", "Create failed on a valid set: %v", cre.Err)
	}
	clone.RecordCreated(r, cre)
	w.Created = clone.Created
	w.Exps = clone.Exps
	var faults []string
	if crashAt >= 0 && t.Bool(1, 3, "older-set-present") {
		// an older, complete set of the same files (earlier content) is
		// already in the directory when the new Create is interrupted
		old := *w
		old.Disk = w.Disk
		oldFiles := make([][]byte, len(w.Files))
		for i := range w.Files {
			oldFiles[i], _ = w.Disk.Get(w.Path(i))
			d := append([]byte(nil), w.Files[i].Data...)
			if len(d) > 0 {
				d[t.Draw(len(d), "old-byte")] ^= 0x33
			}
			w.Disk.Put(w.Path(i), d)
			if w.OlderGen == nil {
				w.OlderGen = map[string][]byte{}
			}
			w.OlderGen[w.Path(i)] = d
		}
		old.R = 1 + t.Draw(5, "old-R")
		var oc *OpResult
		if par1Set {
			oc = r.Create1(&old, w.Index, w.FilePaths(), nil)
		} else {
			oc = r.Create2(&old, w.FilePaths(), nil, SchedSpec{})
		}
		r.noPanic(oc)
		for i := range w.Files {
			w.Disk.Put(w.Path(i), oldFiles[i])
		}
		r.Probe("older-set-leftovers")
		faults = append(faults, "older-set")
	}
	if crashAt >= 0 {
		// crash Create at a tape-chosen write with a torn length biased
		// to packet boundaries
		var writeIdx []int
		for i, a := range cre.Log {
			if a.Op == 'W' {
				writeIdx = append(writeIdx, i)
			}
		}
		k := t.Draw(len(writeIdx), "crash-write")
		a := cre.Log[writeIdx[k]]
		keep := t.Draw(len(a.Data)+1, "keep")
		if !par1Set && t.Bool(1, 2, "keep-boundary") {
			pk, _ := ref.ParsePackets(a.Data)
			if len(pk) > 0 {
				keep = pk[t.Draw(len(pk), "keep-pkt")].Offset
				r.Probe("crash-torn-at-boundary")
			}
		}
		plan := []simdisk.Fault{{Index: writeIdx[k], Kind: simdisk.Crash, Keep: keep}}
		var c2 *OpResult
		if par1Set {
			c2 = r.Create1(w, w.Index, w.FilePaths(), plan)
		} else {
			c2 = r.Create2(w, w.FilePaths(), plan, SchedSpec{})
		}
		r.noPanic(c2)
		if !c2.Crashed {
			r.Violate("infra-crash-not-fired", "planned crash at I/O %d did not fire", writeIdx[k])
		}
		faults = append(faults, "crash")
		if k == 0 {
			r.Probe("crash-before-index-complete")
		}
	} else {
		w.Disk = clone.Disk
	}
	// archive faults
	na := t.Pick([]int{2, 5, 2, 1}, "n-archive-faults")
	var members []string
	for p := range w.Created {
		members = append(members, p)
	}
	sort.Strings(members)
	for i := 0; i < na; i++ {
		t.Begin("archive-fault")
		p := members[t.Draw(len(members), "member")]
		b, _ := w.Disk.Get(p)
		fault := []string{"flip", "truncate", "delete", "empty", "garbage", "delete-all-recovery", "holds-sibling"}[t.Pick([]int{6, 6, 2, 1, 1, 1, 1}, "fault")]
		if fault == "holds-sibling" {
			// overwritten not with noise but with another valid file of the
			// same set (a sibling recovery file, or the index)
			k := ""
			switch {
			case par1Set && t.Bool(3, 4, "sibling"):
				k = w.hostilePar1Kind(r, "volume-holds-sibling")
			case par1Set:
				k = w.hostilePar1Kind(r, "volume-holds-index")
			case t.Bool(3, 4, "sibling"):
				k = w.hostileRecoveryKind(r, "recovery-holds-sibling")
			default:
				k = w.hostileRecoveryKind(r, "recovery-holds-index")
			}
			if k != "none" {
				faults = append(faults, k)
			}
			t.End()
			continue
		}
		off, bit := 0, 0
		if len(b) > 0 {
			off = t.Draw(len(b), "off")
			bit = t.Draw(8, "bit")
			if !par1Set {
				pk, _ := ref.ParsePackets(b)
				if len(pk) > 0 && t.Bool(2, 3, "structure-aware") {
					pkt := pk[t.Draw(len(pk), "pkt")]
					switch t.Draw(4, "where") {
					case 0:
						off = pkt.Offset
					case 1:
						off = pkt.Offset + 8 + t.Draw(8, "len-byte")
						if t.Bool(1, 2, "msb") {
							off = pkt.Offset + 15
							bit = 7
						}
					case 2:
						off = pkt.Offset + t.Draw(64, "hdr")
					case 3:
						off = pkt.Offset + 64 + t.Draw(pkt.Length-63, "body")
						if off >= len(b) {
							off = len(b) - 1
						}
					}
				}
			} else if t.Bool(1, 2, "structure-aware") {
				off = t.Draw(min(len(b), 96+56*2), "hdr")
			}
		}
		if w.applyArchiveFault(r, fault, p, off, bit) {
			faults = append(faults, fault)
			r.Logf("archive fault %s %s off=%d bit=%d", fault, filepath.Base(p), off, bit)
		}
		t.End()
	}
	// data faults
	nd := t.Pick([]int{3, 3, 1}, "n-data-faults")
	for i := 0; i < nd; i++ {
		faults = append(faults, w.DamageData(r, nil))
	}
	vout, rout := c13Observe(r, w, t.Bool(1, 2, "doublecheck"))
	sort.Strings(faults)
	r.Class = fmt.Sprintf("random par1=%v faults=%v v=%s r=%s", par1Set, uniq(faults), vout, rout)
	r.Nontriv = len(faults) > 0
}
