package engine

import (
	"github.com/akalin/gopar/par1"
	"github.com/akalin/gopar/par2"
	"sync"

	"verifsim/simdisk"
)

// DelegateEvent is one per-file outcome that gopar reported to the
// caller's delegate (what the par command prints as progress): a read
// ('R') or write ('W') of Path, reported as succeeded (OK) or failed.
// Call is the number of I/O calls the operation had made when the
// report arrived, so Call-1 indexes the I/O call it is about.
type DelegateEvent struct {
	Op   byte
	Path string
	OK   bool
	Call int
}

type recorder struct {
	disk *simdisk.Mem
	ev   *[]DelegateEvent
}

// delegates may be called from any goroutine of the code under test
var recorderMu sync.Mutex

func (rc recorder) add(op byte, path string, err error) {
	n := rc.disk.OpCalls()
	recorderMu.Lock()
	*rc.ev = append(*rc.ev, DelegateEvent{Op: op, Path: path, OK: err == nil, Call: n})
	recorderMu.Unlock()
}

type recDecoder2 struct {
	par2.DoNothingDecoderDelegate
	recorder
}

func (d recDecoder2) OnDataFileLoad(i, n int, path string, byteCount, hits, misses int, err error) {
	d.add('R', path, err)
}
func (d recDecoder2) OnParityFileLoad(i int, path string, err error) { d.add('R', path, err) }
func (d recDecoder2) OnDataFileWrite(i, n int, path string, byteCount int, err error) {
	d.add('W', path, err)
}

type recEncoder2 struct {
	par2.DoNothingCreateDelegate
	recorder
}

func (d recEncoder2) OnDataFileLoad(i, n int, path string, byteCount int, err error) {
	d.add('R', path, err)
}
func (d recEncoder2) OnIndexFileWrite(path string, byteCount int, err error) { d.add('W', path, err) }
func (d recEncoder2) OnRecoveryFileWrite(start, count, total int, path string, dataByteCount, byteCount int, err error) {
	d.add('W', path, err)
}

type recDecoder1 struct {
	par1.DoNothingDecoderDelegate
	recorder
}

func (d recDecoder1) OnDataFileLoad(i, n int, path string, byteCount int, corrupt bool, err error) {
	d.add('R', path, err)
}
func (d recDecoder1) OnDataFileWrite(i, n int, path string, byteCount int, err error) {
	d.add('W', path, err)
}
func (d recDecoder1) OnVolumeFileLoad(i uint64, path string, storedSetHash, computedSetHash [16]byte, dataByteCount int, err error) {
	d.add('R', path, err)
}

type recEncoder1 struct {
	par1.DoNothingCreateDelegate
	recorder
}

func (d recEncoder1) OnDataFileLoad(i, n int, path string, byteCount int, err error) {
	d.add('R', path, err)
}
func (d recEncoder1) OnVolumeFileWrite(i, n int, path string, dataByteCount, byteCount int, err error) {
	d.add('W', path, err)
}

// oracleDelegate: what gopar reports per file to the delegate agrees
// with what happened at the I/O layer: a read or write that failed is
// never reported as a success. (The converse is not required: gopar
// reports hash mismatches and the like through the same channel.)
func (r *Run) oracleDelegate(res *OpResult) {
	for _, ev := range res.Delegate {
		if ev.Call < 1 || ev.Call > len(res.Log) {
			continue
		}
		a := res.Log[ev.Call-1]
		if a.Op != ev.Op || a.Path != ev.Path {
			// the report is not about the latest I/O call (e.g. a report
			// issued without any I/O): nothing to compare
			continue
		}
		// a file that does not exist is damage, not an I/O failure: only
		// injected faults count
		if a.Fault != simdisk.None && a.Err != "" && ev.OK {
			what := "read"
			if a.Op == 'W' {
				what = "write"
			}
			r.Violate("fault-swallowed", "%s: the failed %s of %s (%s) was reported to the delegate as a success", res.Op, what, a.Path, a.Err)
		}
	}
}
