package engine

import (
	"fmt"
	"path/filepath"
	"sort"

	"verifsim/simdisk"
)

func init() {
	Register(&Profile{Name: "io-faults", Prop: "C18", Weight: 10, Quick: 5000, Thorough: 100000, Fn: ioFaults})
	SetMeta("C18", &Meta{
		Level: "fault_enumeration",
		Rule:  "a scenario = (format, operation in {Create, Verify, Repair}, archive state) drawn from the tape; the operation is first run fault-free on a clone of the simulated disk to learn its I/O call sequence, then once per (call index, applicable fault kind) with that single fault injected on a fresh clone (exhaustive over call indices; thorough adds all pairs for short sequences and sampled pairs otherwise), followed by a fault-free rerun on the post-fault disk. evaluations = scenarios; distinct_nontrivial = distinct (format, operation, state class, number of I/O calls class) among scenarios in which every planned fault actually fired; counters.fault-injections = operations executed with a fault. Every operation runs with a recording delegate (the channel the par command prints per-file progress from): a read or write that failed by injection must not be reported to it as a success. Archive states include sets written by another client (PAR1 entries not saved in the volume set, PAR2 non-recovery-set files).",
		Assumptions: []string{
			"I/O faults exist only at gopar's fileIO seam on the simulated disk; injected errors are EIO/ENOSPC PathErrors, never not-exist",
			"torn-write semantics: the target holds a prefix of the new data (or is truncated to zero, or is complete with a late error); no other file is touched by the disk itself",
			"rerun equivalence is required only when the reference model says the premise (enough intact recovery blocks for the slices still missing) holds on the post-fault disk; losing the premise is excused only by a torn or truncating write (the statement's proviso): when it held before the operation and is lost although every injected fault was without effect (failed read or listing, write that wrote nothing), that is the violation failed-op-worsened",
		},
		ProbesWant: []string{"fault-at-read", "fault-at-glob", "fault-at-write", "torn-write-of-repaired-file", "pair-of-faults", "par1-volume-probe-fault", "rerun-after-torn-write", "premise-lost-by-torn-write"},
	})
}

type ioScenario struct {
	w     *World
	op    string
	index string
	paths []string
	dc    bool
	g     int
}

func (sc *ioScenario) run(r *Run, d *simdisk.Mem, plan []simdisk.Fault) (*OpResult, *World) {
	w2 := *sc.w
	w2.Disk = d
	var res *OpResult
	switch {
	case sc.op == "create" && w2.Par1:
		res = r.Create1(&w2, sc.index, sc.paths, plan)
	case sc.op == "create":
		res = r.Create2(&w2, sc.paths, plan, SchedSpec{})
	case sc.op == "verify" && w2.Par1:
		res = r.Verify1(&w2, sc.index, sc.dc, plan)
	case sc.op == "verify":
		res = r.Verify2(&w2, sc.index, sc.g, plan, SchedSpec{})
	case sc.op == "repair" && w2.Par1:
		res = r.Repair1(&w2, sc.index, sc.dc, plan)
	default:
		res = r.Repair2(&w2, sc.index, sc.g, sc.dc, plan, SchedSpec{})
	}
	return res, &w2
}

func kindsFor(op byte) []simdisk.Kind {
	switch op {
	case 'R':
		return []simdisk.Kind{simdisk.ReadEIO, simdisk.ReadPartialEIO}
	case 'G':
		return []simdisk.Kind{simdisk.GlobEIO}
	case 'W':
		return []simdisk.Kind{simdisk.WriteENOSPC, simdisk.WriteTorn, simdisk.WriteLateErr, simdisk.WriteTruncErr}
	}
	return nil
}

func ioFaults(r *Run) {
	t := r.T
	par1Set := t.Bool(1, 3, "par1")
	// every scenario runs its operation dozens of times: keep the slice
	// size moderate (gopar's scan costs O(S^2) on a damaged file tail)
	w := GenWorld(r, GenOpts{Par1: par1Set, MaxFiles: 5, SmallOnly: true, MaxR: 5, SliceSizes: []int{4, 8, 12, 16, 20, 64, 100, 256, 1024, 4096}})
	sc := &ioScenario{w: w, index: w.Index, paths: w.FilePaths(), dc: t.Bool(1, 2, "dc"), g: []int{1, 2, 4}[t.Draw(3, "g")]}
	sc.op = []string{"create", "verify", "repair"}[t.Pick([]int{2, 2, 5}, "op")]
	if !par1Set && sc.op != "create" && t.Bool(1, 25, "many-volume-files") {
		// enough recovery blocks for six or seven volume files
		w.R = 31 + t.Draw(70, "many-R")
		r.Probe("set-with-many-volume-files")
	}
	if !par1Set && t.Bool(1, 100, "megabytes-of-recovery-data") {
		// a Create that writes several MiB of recovery data (writers tend
		// to buffer, batch or chunk their output above some size)
		w.S = []int{256 << 10, 512 << 10, 1 << 20}[t.Draw(3, "big-S")]
		w.R = 6 + t.Draw(7, "big-R")
		data := expandContent(ckRandom, t.Draw64(0, "big-seed"), w.S/2+t.Draw(w.S, "big-size"), 64)
		w.Files = w.Files[:1]
		w.Files[0].Data = data
		for p := range w.Disk.Snapshot() {
			w.Disk.Remove(p)
		}
		w.Disk.Put(w.Path(0), data)
		w.N = (len(data) + w.S - 1) / w.S
		sc.paths = w.FilePaths()
		sc.op = "create"
		r.Probe("create-with-megabytes-of-recovery-data")
	}
	stateClass := "fresh"
	if sc.op != "create" {
		var cre *OpResult
		if par1Set {
			cre = r.Create1(w, w.Index, sc.paths, nil)
		} else {
			cre = r.Create2(w, sc.paths, nil, SchedSpec{})
		}
		r.noPanic(cre)
		if cre.Err != nil {
			r.Violate("create-failed", "Create failed on a valid set: %v", cre.Err)
		}
		w.RecordCreated(r, cre)
		nd := t.Pick([]int{1, 4, 3, 1}, "ndamage")
		var kinds []string
		for i := 0; i < nd; i++ {
			kinds = append(kinds, w.DamageData(r, []string{"delete", "flip", "overwrite", "insert", "truncate", "swap", "empty", "append-garbage"}))
		}
		if t.Bool(1, 4, "lose-recovery") {
			if par1Set {
				w.Disk.Remove(w.VolumePath(1 + t.Draw(w.R, "vol")))
			} else {
				w.DeleteRecovery(r)
			}
		}
		// odd but harmless archive states: a recovery file emptied by an
		// earlier torn write (it holds no packets and is skipped), a backup
		// copy of a recovery file
		if !par1Set && t.Bool(1, 5, "empty-volume") {
			if k := w.hostileRecoveryKind(r, "empty-recovery"); k != "none" {
				kinds = append(kinds, "empty-volume")
			}
		}
		if !par1Set && t.Bool(1, 8, "backup-copy") {
			rec := w.RecoveryPaths()
			if len(rec) > 0 {
				src := rec[t.Draw(len(rec), "which")]
				if b, ok := w.Disk.Get(src); ok {
					w.Disk.Put(src[:len(src)-5]+".bak.par2", b)
					kinds = append(kinds, "backup-copy")
				}
			}
		}
		if !par1Set && t.Bool(1, 10, "incomplete-index") {
			// an index file that lacks some of its packets (the volume files
			// repeat them): whatever the operation makes of it without a
			// fault, with a fault it must report the fault
			k := w.hostileRecoveryKind(r, []string{"index-cut-at-packet-boundary", "index-lacks-a-packet"}[t.Draw(2, "how")])
			if k != "none" {
				kinds = append(kinds, "incomplete-index")
			}
		}
		if par1Set && t.Bool(1, 5, "foreign-writer") {
			// the set as another PAR1 client would have written it (comment,
			// entries listed but not saved in the volume set)
			w.RewriteAsForeignPar1(r)
			kinds = append(kinds, "foreign-writer")
		}
		if !par1Set && t.Bool(1, 6, "foreign-writer") {
			// the set as another PAR2 client would have written it, possibly
			// with files in the non-recovery set
			if w.RewriteAsForeignPar2(r) {
				kinds = append(kinds, "foreign-writer")
			}
		}
		sort.Strings(kinds)
		stateClass = fmt.Sprint(uniq(kinds))
	}
	state := w.Disk.Clone()

	// 1. fault-free run on a clone: learn the I/O call sequence
	base, wbase := sc.run(r, state.Clone(), nil)
	r.noPanic(base)
	n := len(base.Log)
	baseFinal := wbase.Disk.Snapshot()
	r.Logf("scenario op=%s par1=%v calls=%d baseline=%s", sc.op, par1Set, n, base.errString())

	type inj struct {
		faults []simdisk.Fault
		desc   string
	}
	// faults are addressed by (kind of call, path, n-th such call): stable
	// even if the code under test issues its calls in another order
	addrOf := func(i int) (string, int) {
		a := base.Log[i]
		key := a.Resolved
		if a.Op == 'G' {
			key = a.Path
		}
		occ := 0
		for j := 0; j <= i; j++ {
			b := base.Log[j]
			kb := b.Resolved
			if b.Op == 'G' {
				kb = b.Path
			}
			if b.Op == a.Op && kb == key {
				occ++
			}
		}
		return key, occ
	}
	var plans []inj
	for i, a := range base.Log {
		for _, k := range kindsFor(a.Op) {
			if k == simdisk.ReadPartialEIO && a.Err != "" {
				continue // nothing to read partially from a file that cannot be opened
			}
			keep := a.N / 2
			if k == simdisk.WriteTorn {
				switch t.Draw(4, "torn-keep") {
				case 0:
					keep = 0
				case 1:
					keep = a.N - 1
				case 2:
					keep = a.N / 2
				case 3:
					if a.N > 0 {
						keep = t.Draw(a.N, "keep")
					}
				}
			}
			// which error value the failing call hands back (a plain errno,
			// another errno, the io package's sentinel errors, wrapped or not)
			style := t.Pick([]int{5, 1, 1, 1, 1}, "error-style")
			key, occ := addrOf(i)
			plans = append(plans, inj{[]simdisk.Fault{{Path: key, Op: a.Op, Occ: occ, Kind: k, Keep: keep, ErrStyle: style}}, fmt.Sprintf("call %d (%c %s) kind=%s keep=%d errstyle=%d", i, a.Op, a.Path, k, keep, style)})
		}
	}
	single := len(plans)
	// pairs: thorough always, quick sometimes
	if (r.Thorough() || t.Bool(1, 6, "pairs")) && n >= 2 {
		var pairs [][2]int
		if n <= 12 {
			for i := 0; i < n; i++ {
				for j := i + 1; j < n; j++ {
					pairs = append(pairs, [2]int{i, j})
				}
			}
		} else {
			for k := 0; k < 40; k++ {
				i := t.Draw(n-1, "pair-i")
				j := i + 1 + t.Draw(n-1-i, "pair-j")
				pairs = append(pairs, [2]int{i, j})
			}
		}
		for _, pr := range pairs {
			a, b := base.Log[pr[0]], base.Log[pr[1]]
			ka := kindsFor(a.Op)
			kb := kindsFor(b.Op)
			k1 := ka[t.Draw(len(ka), "pair-kind-a")]
			k2 := kb[t.Draw(len(kb), "pair-kind-b")]
			pa, oa := addrOf(pr[0])
			pb, ob := addrOf(pr[1])
			plans = append(plans, inj{[]simdisk.Fault{{Path: pa, Op: a.Op, Occ: oa, Kind: k1, Keep: a.N / 2}, {Path: pb, Op: b.Op, Occ: ob, Kind: k2, Keep: b.N / 2}},
				fmt.Sprintf("pair: call %d (%c) %s + call %d (%c) %s", pr[0], a.Op, k1, pr[1], b.Op, k2)})
		}
		r.Probe("pair-of-faults")
	}

	premiseOf := func(wx *World) bool {
		if par1Set {
			tr := wx.TruthPar1()
			return tr.UnusableData <= len(tr.PresentVolumes) && !singularPar1(tr)
		}
		tr := wx.TruthPar2()
		if !premiseRepair2(tr) {
			return false
		}
		sing, det := wx.SingularPar2(tr)
		return !sing && det
	}
	// the same judgement on the state before the operation
	premise0 := false
	if sc.op == "repair" && base.Err == nil {
		w0 := *sc.w
		w0.Disk = state.Clone()
		premise0 = premiseOf(&w0)
	}
	allFired := true
	for pi, pl := range plans {
		d := state.Clone()
		res, w2 := sc.run(r, d, pl.faults)
		r.Count("fault-injections")
		r.noPanic(res)
		var fired []simdisk.Access
		for _, a := range res.Log {
			if a.Fault != simdisk.None {
				fired = append(fired, a)
			}
		}
		if len(fired) == 0 {
			// the I/O sequence is deterministic, so a single planned fault
			// must fire
			if pi < single {
				r.Violate("infra-fault-not-fired", "%s: planned fault did not fire", pl.desc)
			}
			allFired = false
			continue
		}
		f0 := fired[0]
		switch f0.Op {
		case 'R':
			r.Probe("fault-at-read")
			if par1Set && len(f0.Path) > 4 && f0.Path[len(f0.Path)-4] == '.' && f0.Path[len(f0.Path)-3] == 'p' && f0.Path[len(f0.Path)-1] != 'r' {
				r.Probe("par1-volume-probe-fault")
			}
		case 'G':
			r.Probe("fault-at-glob")
		case 'W':
			r.Probe("fault-at-write")
		}
		// (1) the failure is reported
		if res.Err == nil {
			r.Violate("fault-swallowed", "%s %s: the I/O failure was not reported (operation returned success)", sc.op, pl.desc)
		}
		// (2) no success reported for an incomplete write; listed files are complete originals
		incomplete := map[string]bool{}
		for _, a := range fired {
			if a.Op == 'W' {
				incomplete[a.Resolved] = true
			}
		}
		for _, p := range res.Repaired {
			rp := d.Resolve(p)
			// a later complete write to the same path would make it complete again
			if incomplete[rp] && !completedLater(res.Log, rp) {
				r.Violate("success-for-incomplete-write", "%s %s: %s is listed as repaired although its write failed", sc.op, pl.desc, rp)
			}
			for i := range w2.Files {
				if w2.Path(i) == rp {
					if got, ok := d.Get(rp); !ok || string(got) != string(w2.Files[i].Data) {
						if !incomplete[rp] {
							r.Violate("success-for-incomplete-write", "%s %s: %s is listed as repaired but does not hold the original bytes", sc.op, pl.desc, rp)
						}
					}
				}
			}
		}
		// (3) nothing that was not being written is altered
		written := map[string]bool{}
		for _, a := range res.Log {
			if a.Op == 'W' {
				written[a.Resolved] = true
				if a.Fault == simdisk.None && a.Err == "" {
					if got, _ := d.Get(a.Resolved); string(got) != string(a.Data) && !laterWrite(res.Log, a) {
						r.Violate("other-file-altered", "%s %s: %s does not hold what was written to it", sc.op, pl.desc, a.Resolved)
					}
				}
			}
		}
		for p, before := range res.Before {
			after, ok := res.After[p]
			if (!ok || string(after) != string(before)) && !written[p] {
				r.Violate("other-file-altered", "%s %s: %s changed although it was not being written", sc.op, pl.desc, p)
			}
		}
		for p := range res.After {
			if _, ok := res.Before[p]; !ok && !written[p] {
				r.Violate("other-file-altered", "%s %s: %s appeared although it was not being written", sc.op, pl.desc, p)
			}
		}
		if sc.op == "repair" {
			// a failed repair never writes anything but originals to protected paths
			for _, a := range res.Log {
				if a.Op != 'W' {
					continue
				}
				okTarget := false
				for i := range w2.Files {
					if w2.Path(i) == a.Resolved {
						okTarget = true
						if string(a.Data) != string(w2.Files[i].Data) {
							r.Violate("other-file-altered", "%s %s: wrote non-original bytes to %s", sc.op, pl.desc, a.Resolved)
						}
					}
				}
				if !okTarget {
					r.Violate("other-file-altered", "%s %s: wrote %s which is not a protected file", sc.op, pl.desc, a.Resolved)
				}
				if a.Fault == simdisk.WriteTorn || a.Fault == simdisk.WriteTruncErr {
					r.Probe("torn-write-of-repaired-file")
				}
			}
		}
		// (4) once the fault is gone, rerunning completes as if it had never occurred
		premise := true
		if sc.op == "repair" && base.Err == nil {
			premise = premiseOf(w2)
			if !premise {
				r.Probe("premise-lost-by-torn-write")
				// the proviso of the statement excuses data destroyed by a torn
				// write; a fault that had no effect of its own (a failed read or
				// listing, a write that failed without writing anything) must
				// leave the set as repairable as it was
				effectFree := len(fired) > 0
				for _, a := range fired {
					switch a.Fault {
					case simdisk.ReadEIO, simdisk.ReadPartialEIO, simdisk.GlobEIO, simdisk.WriteENOSPC:
					default:
						effectFree = false
					}
					if a.Kept > 0 {
						effectFree = false
					}
				}
				if effectFree && premise0 {
					var rewritten []string
					for _, a := range res.Log {
						if a.Op == 'W' && a.Err == "" {
							rewritten = append(rewritten, filepath.Base(a.Resolved))
						}
					}
					f0 := fired[0]
					r.Violate("failed-op-worsened", "repair: the %c call on %s failed without any effect on the disk (%s), yet the set can no longer be repaired although the fault-free run succeeds; this Repair had already rewritten %q (plan: %s)", f0.Op, filepath.Base(f0.Resolved), f0.Fault, rewritten, pl.desc)
				}
			}
		}
		re, w3 := sc.run(r, d, nil)
		r.noPanic(re)
		if len(fired) > 0 && fired[0].Op == 'W' {
			r.Probe("rerun-after-torn-write")
		}
		switch sc.op {
		case "verify":
			if (re.Err == nil) != (base.Err == nil) || re.Counts != base.Counts || re.Counts1 != base.Counts1 || re.AllData != base.AllData {
				r.Violate("rerun-differs", "verify %s: rerun gives %s %+v%+v, fault-free run gave %s %+v%+v", pl.desc, re.errString(), re.Counts, re.Counts1, base.errString(), base.Counts, base.Counts1)
			}
		case "create":
			if (re.Err == nil) != (base.Err == nil) {
				r.Violate("rerun-differs", "create %s: rerun gives %s, fault-free run gave %s", pl.desc, re.errString(), base.errString())
			}
			if base.Err == nil {
				final := w3.Disk.Snapshot()
				if diff := snapDiff(baseFinal, final); diff != "" {
					r.Violate("rerun-differs", "create %s: after the rerun %s", pl.desc, diff)
				}
			}
		case "repair":
			if base.Err == nil && premise {
				if re.Err != nil {
					r.Violate("rerun-differs", "repair %s: rerun fails (%s) although the fault-free run succeeded and capacity still suffices", pl.desc, re.errString())
				}
				final := w3.Disk.Snapshot()
				if diff := snapDiff(baseFinal, final); diff != "" {
					r.Violate("rerun-differs", "repair %s: after the rerun %s", pl.desc, diff)
				}
			}
			if re.Err == nil && !w3.AllIntact() {
				r.Violate("rerun-differs", "repair %s: rerun reports success but %s", pl.desc, w3.FirstDamaged())
			}
		}
	}
	r.Class = fmt.Sprintf("par1=%v op=%s state=%s calls=%s base=%v", par1Set, sc.op, stateClass, sizeClass(n), base.Err == nil)
	r.Nontriv = allFired && len(plans) > 0
	r.Add("planned-injections", len(plans))
}

func completedLater(log []simdisk.Access, path string) bool {
	ok := false
	for _, a := range log {
		if a.Op == 'W' && a.Resolved == path {
			ok = a.Fault == simdisk.None && a.Err == ""
		}
	}
	return ok
}

func laterWrite(log []simdisk.Access, a simdisk.Access) bool {
	for _, b := range log {
		if b.Op == 'W' && b.Resolved == a.Resolved && b.Seq > a.Seq {
			return true
		}
	}
	return false
}

func snapDiff(want, got map[string][]byte) string {
	var paths []string
	for p := range want {
		paths = append(paths, p)
	}
	for p := range got {
		if _, ok := want[p]; !ok {
			paths = append(paths, p)
		}
	}
	sort.Strings(paths)
	for _, p := range paths {
		w, wok := want[p]
		g, gok := got[p]
		if wok != gok {
			return fmt.Sprintf("%s exists=%v, after the fault-free run exists=%v", p, gok, wok)
		}
		if string(w) != string(g) {
			return fmt.Sprintf("%s differs from the fault-free run's result (%d vs %d bytes)", p, len(g), len(w))
		}
	}
	return ""
}
