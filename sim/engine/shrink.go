package engine

import (
	"time"

	"verifsim/tape"
)

// Runner executes one tape and returns the result (in-process or in a
// fresh child process).
type Runner func(vals []uint64) Result

// InProcRunner runs candidates in this process.
func InProcRunner(p *Profile, tier string, seed uint64, index int, hang time.Duration) Runner {
	return func(vals []uint64) Result {
		res := Execute(p, tier, seed, tape.Replay(vals), index, hang)
		return res
	}
}

// Shrink minimises vals while run(vals) still violates (prop, kind).
// It returns the smallest tape found and the result of running it.
func Shrink(run Runner, vals []uint64, prop, kind string, budget time.Duration) ([]uint64, Result, int) {
	deadline := time.Now().Add(budget)
	tries := 0
	same := func(res Result) bool {
		return res.Viol != nil && res.Viol.Property == prop && res.Viol.Kind == kind
	}
	best := append([]uint64(nil), vals...)
	bestRes := run(best)
	tries++
	if !same(bestRes) {
		return vals, bestRes, tries
	}
	accept := func(cand []uint64) bool {
		if time.Now().After(deadline) {
			return false
		}
		tries++
		res := run(cand)
		if !same(res) {
			return false
		}
		// keep only what the run consumed
		if res.Draws < len(cand) {
			cand = cand[:res.Draws]
		}
		// strip trailing zeros (an exhausted tape yields zeros anyway)
		for len(cand) > 0 && cand[len(cand)-1] == 0 {
			cand = cand[:len(cand)-1]
		}
		best = append([]uint64(nil), cand...)
		bestRes = res
		return true
	}
	accept(best)
	for pass := 0; pass < 6 && time.Now().Before(deadline); pass++ {
		progress := false
		// 1. delete frames, last first, outer frames before inner ones
		{
			fs := bestRes.Frames
			for i := len(fs) - 1; i >= 0 && time.Now().Before(deadline); i-- {
				fStart, fEnd := fs[i][0], fs[i][1]
				if fEnd < 0 || fEnd > len(best) {
					fEnd = len(best)
				}
				if fEnd <= fStart {
					continue
				}
				cand := append(append([]uint64(nil), best[:fStart]...), best[fEnd:]...)
				if accept(cand) {
					progress = true
					fs = bestRes.Frames
					if i > len(fs) {
						i = len(fs)
					}
				}
			}
		}
		// 2. zero blocks
		for b := 16; b >= 1 && time.Now().Before(deadline); b /= 2 {
			for i := 0; i < len(best); i += b {
				end := i + b
				if end > len(best) {
					end = len(best)
				}
				nz := false
				for _, v := range best[i:end] {
					if v != 0 {
						nz = true
					}
				}
				if !nz {
					continue
				}
				cand := append([]uint64(nil), best...)
				for k := i; k < end; k++ {
					cand[k] = 0
				}
				if accept(cand) {
					progress = true
				}
				if time.Now().After(deadline) {
					break
				}
			}
		}
		// 3. shrink single values
		for i := 0; i < len(best) && time.Now().Before(deadline); i++ {
			for best[i] > 0 {
				cand := append([]uint64(nil), best...)
				if cand[i] > 1 {
					cand[i] /= 2
				} else {
					cand[i] = 0
				}
				if !accept(cand) {
					if best[i] > 1 {
						cand = append([]uint64(nil), best...)
						cand[i]--
						if accept(cand) {
							progress = true
							if i >= len(best) {
								break
							}
							continue
						}
					}
					break
				}
				progress = true
				if i >= len(best) {
					break
				}
			}
		}
		if !progress {
			break
		}
	}
	return best, bestRes, tries
}
