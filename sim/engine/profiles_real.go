package engine

import (
	"fmt"
	"os"
	"path/filepath"
	"sort"
	"strings"

	"github.com/akalin/gopar/par1"
	"github.com/akalin/gopar/par2"
)

func init() {
	Register(&Profile{Name: "durability-par2-real", Prop: "C01", Weight: 2, Quick: 1500, Thorough: 30000, Fn: func(r *Run) { realCycle(r, false) }})
	Register(&Profile{Name: "verify-truth-real", Prop: "C03", Weight: 2, Quick: 1500, Thorough: 30000, Fn: func(r *Run) { realCycle(r, false) }})
	Register(&Profile{Name: "write-discipline-real", Prop: "C02", Weight: 2, Quick: 1500, Thorough: 30000, Fn: func(r *Run) { realCycle(r, r.T.Bool(1, 2, "par1")) }})
	Register(&Profile{Name: "corrupt-real", Prop: "C13", Weight: 2, Quick: 1200, Thorough: 25000, Fn: func(r *Run) { realCycle(r, r.T.Bool(1, 3, "par1")) }})
	Register(&Profile{Name: "durability-par1-real", Prop: "C04", Weight: 2, Quick: 2500, Thorough: 50000, Fn: func(r *Run) { realCycle(r, true) }})
}

// oracleTree is the write-discipline oracle for real-disk runs, where
// there is no access log: every path that differs between the before
// and after snapshots must be a protected file that now holds its
// original bytes and is listed in RepairedPaths.
func (r *Run) oracleTree(w *World, res *OpResult, kind string) {
	listed := map[string]bool{}
	for _, p := range res.Repaired {
		listed[filepath.Clean(p)] = true
	}
	var paths []string
	seen := map[string]bool{}
	for p := range res.Before {
		paths = append(paths, p)
		seen[p] = true
	}
	for p := range res.After {
		if !seen[p] {
			paths = append(paths, p)
		}
	}
	sort.Strings(paths)
	for _, p := range paths {
		b, bok := res.Before[p]
		a, aok := res.After[p]
		if bok == aok && string(a) == string(b) {
			continue
		}
		switch kind {
		case "verify":
			r.Violate("verify-wrote", "Verify changed %s on the real disk", p)
		case "create":
			if !w.isArchiveMember(p) {
				r.Violate("create-touched-input", "Create changed %s which is not a member of the archive", p)
			}
		case "repair":
			fi := -1
			for i := range w.Files {
				if w.Path(i) == p {
					fi = i
				}
			}
			if fi < 0 {
				r.Violate("bystander-changed", "%s changed %s which is not a protected file", res.Op, p)
				continue
			}
			if !aok || string(a) != string(w.Files[fi].Data) {
				r.Violate("wrote-non-original", "%s left %q with bytes that are neither its previous content nor the original", res.Op, w.Files[fi].Name)
			}
			if !listed[p] {
				r.Violate("wrote-unlisted", "%s rewrote %q but did not list it in RepairedPaths %v", res.Op, w.Files[fi].Name, res.Repaired)
			}
		}
	}
}

// realCycle: the PAR2 / PAR1 cycle through gopar's public API on a real
// tmpfs directory (production ioutil / directory listing / filepath.Abs
// and working-directory handling), under the same oracles.
func realCycle(r *Run, par1Set bool) {
	t := r.T
	w := GenWorld(r, GenOpts{Par1: par1Set, MaxFiles: 6, MaxTotal: 40 << 10})
	if w.G == 0 {
		w.G = 3
	}
	rw := r.Materialise(w)
	prop := r.Prop
	origWD, _ := os.Getwd()
	defer os.Chdir(origWD)
	// invocation: absolute paths, or relative ones from the set directory
	relative := t.Bool(1, 2, "relative")
	index := rw.Real(w.Index)
	var paths []string
	for i := range w.Files {
		paths = append(paths, rw.Real(w.Path(i)))
	}
	if relative {
		os.Chdir(rw.Real(w.Dir))
		index = filepath.Base(w.Index)
		for i, f := range w.Files {
			paths[i] = f.Name
		}
		r.Probe("relative-paths")
	}
	cre := r.realOp(rw, "create-real", func(res *OpResult) {
		if par1Set {
			res.Err = par1.Create(index, paths, par1.CreateOptions{NumParityFiles: w.R})
		} else {
			res.Err = par2.Create(index, paths, par2.CreateOptions{SliceByteCount: w.S, NumParityShards: w.R, NumGoroutines: w.G})
		}
	})
	r.noPanic(cre)
	if cre.Err != nil {
		r.Violate("create-failed", "Create failed on a valid set (real disk): %v", cre.Err)
	}
	rw.Pull()
	w.Created = map[string][]byte{}
	for name, b := range rw.archiveFiles() {
		w.Created[filepath.Join(w.Dir, name)] = b
	}
	if prop == "C02" {
		r.oracleTree(w, cre, "create")
	}
	if w.Created[w.Index] == nil || len(w.Created) < 2 {
		r.Violate("create-failed", "Create returned success but the set is incomplete (%d archive files)", len(w.Created))
	}
	// damage on the simulated mirror, then sync to the real directory
	var kinds []string
	nd := 1 + t.Pick([]int{5, 3, 1}, "ndamage")
	for i := 0; i < nd; i++ {
		kinds = append(kinds, w.DamageData(r, nil))
	}
	recDeleted := 0
	if t.Bool(1, 2, "lose-recovery") {
		if par1Set {
			for v := 1; v <= w.R; v++ {
				if t.Bool(1, 3, "del") {
					w.Disk.Remove(w.VolumePath(v))
					recDeleted++
				}
			}
		} else {
			recDeleted = w.DeleteRecovery(r)
		}
	}
	rw.Sync()
	var tr2 Truth2
	var tr1 Truth1
	premise := false
	if par1Set {
		tr1 = w.TruthPar1()
		premise = tr1.UnusableData <= len(tr1.PresentVolumes)
	} else {
		tr2 = w.TruthPar2()
		premise = premiseRepair2(tr2)
	}
	v := r.realOp(rw, "verify-real", func(res *OpResult) {
		if par1Set {
			vr, err := par1.Verify(index, par1.VerifyOptions{VerifyAllData: true})
			res.Err = err
			if err == nil {
				res.HasRes, res.Counts1, res.AllData = true, vr.FileCounts, vr.AllDataOk
			}
		} else {
			vr, err := par2.Verify(index, par2.VerifyOptions{NumGoroutines: w.G})
			res.Err = err
			if err == nil {
				res.HasRes, res.Counts = true, vr.ShardCounts
			}
		}
	})
	r.noPanic(v)
	switch prop {
	case "C03":
		if v.Err != nil {
			r.Violate("verify-error", "Verify failed on the real disk although index and recovery files are undamaged: %v", v.Err)
		}
		r.oracleVerify2(w, v, tr2, true, true)
	case "C04":
		if v.Err != nil {
			r.Violate("verify-error", "PAR1 Verify failed on the real disk: %v", v.Err)
		}
		r.oracleVerify1(w, v, tr1, true)
	case "C02":
		r.oracleTree(w, v, "verify")
	case "C13":
		// any result is truthful (the archive files are undamaged here)
		if par1Set {
			r.oracleVerify1(w, v, tr1, true)
		} else {
			r.oracleVerify2(w, v, tr2, true, true)
		}
		r.oracleTree(w, v, "verify")
	}
	needWork := !w.AllIntact()
	rep := r.realOp(rw, "repair-real", func(res *OpResult) {
		dc := t.Bool(1, 2, "doublecheck")
		if par1Set {
			rr, err := par1.Repair(index, par1.RepairOptions{DoubleCheck: dc})
			res.Err, res.Repaired = err, rr.RepairedPaths
		} else {
			rr, err := par2.Repair(index, par2.RepairOptions{DoubleCheck: dc, NumGoroutines: w.G})
			res.Err, res.Repaired = err, rr.RepairedPaths
		}
	})
	// RepairedPaths are as gopar spells them (relative to the cwd when
	// the index was given relatively): make them simulated absolute paths
	for i, p := range rep.Repaired {
		if !strings.HasPrefix(p, "/") {
			rep.Repaired[i] = filepath.Join(w.Dir, p)
		}
	}
	rw.Pull()
	r.noPanic(rep)
	switch prop {
	case "C01":
		r.oracleRepair2(w, rep, tr2)
	case "C04":
		if rep.Err == nil {
			if !w.AllIntact() {
				r.Violate("success-not-restored", "PAR1 Repair returned success but %s", w.FirstDamaged())
			}
		} else if premise && !singularPar1(tr1) {
			r.Violate("repair-failed-within-capacity", "PAR1 Repair failed on the real disk (%s) although %d unusable <= %d usable volumes", rep.errString(), tr1.UnusableData, len(tr1.PresentVolumes))
		}
	case "C02":
		r.oracleTree(w, rep, "repair")
	case "C13":
		// Repair writes only exact originals, and success means restored
		r.oracleTree(w, rep, "repair")
		if rep.Err == nil && !w.AllIntact() {
			r.Violate("success-not-restored", "Repair returned success on the real disk but %s", w.FirstDamaged())
		}
	}
	os.Chdir(origWD)
	sort.Strings(kinds)
	out := "repaired"
	if rep.Err != nil {
		out = "failed"
	}
	r.Class = fmt.Sprintf("real par1=%v rel=%v S=%s N=%s dmg=%s recdel=%v premise=%v out=%s", par1Set, relative, sClass(w.S), sizeClass(w.N), strings.Join(uniq(kinds), "+"), recDeleted > 0, premise, out)
	r.Nontriv = needWork
	r.Count("backend:real")
}
