package engine

import (
	"encoding/binary"
	"fmt"
	"hash/crc32"
	"path/filepath"
	"sort"
	"strings"

	"verifsim/ref"
	"verifsim/simdisk"
)

// ---- deterministic content ----

type prng struct{ s uint64 }

func (r *prng) next() uint64 {
	r.s += 0x9e3779b97f4a7c15
	z := r.s
	z = (z ^ (z >> 30)) * 0xbf58476d1ce4e5b9
	z = (z ^ (z >> 27)) * 0x94d049bb133111eb
	return z ^ (z >> 31)
}

// Content kinds.
const (
	ckRandom = iota
	ckTwoSymbol
	ckRepeatedSlice
	ckZeroTail
	ckAllZero
	ckText
	ckCRCTwins
	ckWordRuns
	ckZeroAfter16k
	ckFewDuplicates
	ckZeroLed
	ckKinds
)

var contentKindNames = []string{"random", "two-symbol", "repeated-slice", "zero-tail", "all-zero", "text", "crc-twins", "word-runs", "zero-after-16k", "few-duplicates", "zero-led"}

// expandContent deterministically expands (kind, seed) to n bytes.
func expandContent(kind int, seed uint64, n, sliceSize int) []byte {
	g := prng{s: seed}
	b := make([]byte, n)
	switch kind {
	case ckRandom:
		for i := 0; i < n; i += 8 {
			v := g.next()
			for k := 0; k < 8 && i+k < n; k++ {
				b[i+k] = byte(v >> (8 * uint(k)))
			}
		}
	case ckTwoSymbol:
		for i := 0; i < n; i += 64 {
			v := g.next()
			for k := 0; k < 64 && i+k < n; k++ {
				if v&(1<<uint(k)) != 0 {
					b[i+k] = 'a'
				} else {
					b[i+k] = 'b'
				}
			}
		}
	case ckRepeatedSlice:
		pat := make([]byte, sliceSize)
		for i := range pat {
			pat[i] = byte(g.next())
		}
		for i := 0; i < n; i++ {
			b[i] = pat[i%sliceSize]
		}
		// a few distinct slices in between
		for k := 0; k < n/sliceSize/3; k++ {
			o := int(g.next()%uint64(n/sliceSize)) * sliceSize
			for i := o; i < o+sliceSize && i < n; i++ {
				b[i] = byte(g.next())
			}
		}
	case ckFewDuplicates:
		// mostly distinct slices; a few slices repeat an earlier slice or
		// are zero-filled (sparse regions, repeated records)
		for i := 0; i < n; i += 8 {
			v := g.next()
			for k := 0; k < 8 && i+k < n; k++ {
				b[i+k] = byte(v >> (8 * uint(k)))
			}
		}
		k := n / sliceSize
		if k >= 2 {
			for c := 0; c < 1+k/4; c++ {
				dst := 1 + int(g.next()%uint64(k-1))
				src := int(g.next() % uint64(dst))
				if g.next()%3 == 0 {
					// two zero-filled slices
					for i := 0; i < sliceSize; i++ {
						b[src*sliceSize+i] = 0
					}
				}
				copy(b[dst*sliceSize:(dst+1)*sliceSize], b[src*sliceSize:(src+1)*sliceSize])
			}
		}
	case ckZeroLed:
		// sparse content: every slice is zeros up to its last few bytes
		// (and now and then a fully random slice); no slice is all zero
		for o := 0; o < n; o += sliceSize {
			end := o + sliceSize
			if end > n {
				end = n
			}
			v := g.next()
			if v%7 == 0 {
				for i := o; i < end; i++ {
					b[i] = byte(g.next())
				}
				continue
			}
			k := 1 + int(v>>8)%3
			for i := end - k; i < end; i++ {
				if i >= o {
					b[i] = byte(1 + g.next()%255)
				}
			}
		}
	case ckZeroTail:
		cut := n / 2
		for i := 0; i < cut; i++ {
			b[i] = byte(g.next())
		}
		if cut == 0 && n > 0 {
			b[0] = byte(g.next()) | 1
		}
	case ckAllZero:
	case ckCRCTwins:
		// random content in which some slices are different from, but
		// share their CRC-32 with, another slice of the same file
		for i := range b {
			b[i] = byte(g.next())
		}
		k := n / sliceSize
		if sliceSize >= 8 && k >= 2 {
			pairs := 1 + int(g.next()%3)
			for p := 0; p < pairs; p++ {
				i := int(g.next() % uint64(k))
				j := int(g.next() % uint64(k))
				if i == j {
					j = (i + 1) % k
				}
				forgeCRC(b[j*sliceSize:(j+1)*sliceSize], crc32.ChecksumIEEE(b[i*sliceSize:(i+1)*sliceSize]))
			}
		}
	case ckWordRuns:
		// long runs of one repeated 16-bit value (often with a zero low or
		// high byte, as in raw images or audio), separated by random bytes
		i := 0
		for i < n {
			run := 16 * (1 + int(g.next()%40))
			lo, hi := byte(g.next()), byte(g.next())
			switch g.next() % 4 {
			case 0:
				lo = 0
			case 1:
				hi = 0
			case 2:
				lo, hi = 0, 0
			}
			for k := 0; k < run && i < n; k++ {
				if k%2 == 0 {
					b[i] = lo
				} else {
					b[i] = hi
				}
				i++
			}
			for k := 0; k < int(g.next()%8) && i < n; k++ {
				b[i] = byte(g.next())
				i++
			}
		}
	case ckZeroAfter16k:
		// random up to 16 KiB (ending in a non-zero byte), zeros afterwards
		for i := 0; i < n && i < 16384; i++ {
			b[i] = byte(g.next())
		}
		if n >= 16384 {
			b[16383] |= 1
		} else if n > 0 {
			b[n-1] |= 1
		}
	case ckText:
		words := []string{"par", "ity ", "slice\n", "the ", "recovery ", "block ", "0123456789", "\n"}
		i := 0
		for i < n {
			w := words[g.next()%uint64(len(words))]
			i += copy(b[i:], w)
		}
	}
	return b
}

// ---- world ----

// World is a PAR2 or PAR1 file set on a simulated (or real) disk plus
// the reference knowledge about it.
type World struct {
	// OlderGen: for worlds in which an older generation of the same set
	// (same names, other content) was protected before: path -> those
	// bytes. A Repair that restores them wrote exact originals too.
	OlderGen map[string][]byte
	Par1     bool
	Disk     *simdisk.Mem
	Dir      string // absolute archive directory
	Base     string // base name of the index file (without extension)
	Index    string // absolute path of the index file
	Files    []ref.Protected
	S        int // slice size (PAR2)
	R        int // recovery blocks / parity volumes
	G        int // goroutines
	N        int // protected slices (PAR2)
	// UseDefaults: pass zero option values so that Create uses its
	// documented defaults (which S, R then hold).
	UseDefaults bool
	// SharedLate: another file repeats slices of file 0 that lie beyond
	// its first 16 KiB (set by grow16k).
	SharedLate bool
	// Created holds every file the Create call wrote (path -> bytes).
	Created map[string][]byte
	// Bystanders are unrelated files beside the set.
	Bystanders map[string][]byte
	// Exps[path] = recovery exponents stored in that recovery file (PAR2).
	Exps map[string][]int
}

// Path returns the absolute path of protected file i.
func (w *World) Path(i int) string { return filepath.Join(w.Dir, w.Files[i].Name) }

// Present returns the current content of every protected file (nil =
// missing), indexed like Files.
func (w *World) Present() [][]byte {
	out := make([][]byte, len(w.Files))
	for i := range w.Files {
		if d, ok := w.Disk.Get(w.Path(i)); ok {
			if d == nil {
				d = []byte{}
			}
			out[i] = d
		}
	}
	return out
}

// Intact reports whether protected file i currently has its original bytes.
func (w *World) Intact(i int) bool {
	d, ok := w.Disk.Get(w.Path(i))
	return ok && string(d) == string(w.Files[i].Data)
}

// AllIntact reports whether every protected file is intact.
func (w *World) AllIntact() bool {
	for i := range w.Files {
		if !w.Intact(i) {
			return false
		}
	}
	return true
}

// FirstDamaged returns a description of the first non-intact file.
func (w *World) FirstDamaged() string {
	for i := range w.Files {
		if !w.Intact(i) {
			d, ok := w.Disk.Get(w.Path(i))
			if !ok {
				return fmt.Sprintf("%q missing", w.Files[i].Name)
			}
			return fmt.Sprintf("%q differs (len %d, original %d)", w.Files[i].Name, len(d), len(w.Files[i].Data))
		}
	}
	return ""
}

var sliceSizes = []int{4, 8, 12, 16, 20, 64, 100, 256, 1024, 4096}

// GenOpts steers world generation.
type GenOpts struct {
	Par1       bool
	MaxFiles   int
	MaxTotal   int // soft bound on total bytes
	SmallOnly  bool
	RandomOnly bool // only random content (lower == upper)
	NoSubdirs  bool
	SliceSizes []int
	MaxR       int
}

// longTail makes names of 150 characters and more (NAME_MAX is 255)
var longTail = strings.Repeat("abcdefghij", 15) + ".dat"

var nameStems = []string{"f%d.dat", "data%d.bin", "sub/f%d", "sub/deep/er/f%d.x", "with space %d.txt", "UPPER%d.DAT", "d%d/file", "a-%d_b.c.d", "v1..%d.dat", "rel..%d/data.bin", "wait...%d", "win\\f%d.dat", "a\\..\\b%d", "trail%d ", "dot%d.", "n%d", "abcdefg%d", "report[%d].txt", "q%d?.dat", "star*%d.bin", "long%d-" + longTail, "tab\t%d.dat", "line\n%d", "bell\a%d.bin", "esc\x1b[0m%d", "del\x7f%d"}
var par1Stems = []string{"f%d.dat", "data%d.bin", "with space %d.txt", "héllo%d.txt", "日本%d", "\U0001F600%d.bin", "UPPER%d.DAT", "clip%d-\U0001F600", "%d\U00010348\U0001F4BE", "x%dé", "v1..%d.dat", "wait...%d", "..%d", "dot%d.", "report[%d].txt", "long%d-" + longTail, "\ufeff%d.txt", "%d\ufeffmid.bin", "\u200b%d", "\ufffd%d"}

// (the last ones contain an archive extension or a volume-like part
// inside the name)
var baseNames = []string{"set", "my set", "archive.v1", "x", "Set-2_b", "backup.part1", "x.par2", "a.vol01+02", "old.p01.new", "100% done", "a%sb%dc%v"}

// nameConflicts reports whether cand equals an existing name, lies below
// an existing file's name taken as a directory, or is itself a directory
// prefix of an existing name.
func nameConflicts(files []ref.Protected, cand string) bool {
	for _, f := range files {
		if f.Name == cand || strings.HasPrefix(cand, f.Name+"/") || strings.HasPrefix(f.Name, cand+"/") {
			return true
		}
	}
	return false
}

// GenWorld draws a file set and puts it on a fresh simulated disk.
func GenWorld(r *Run, o GenOpts) *World {
	t := r.T
	t.Begin("world")
	defer t.End()
	w := &World{Par1: o.Par1, Disk: simdisk.NewMem(), Bystanders: map[string][]byte{}, Exps: map[string][]int{}}
	dirs := []string{"/w/set", "/w", "/data/long path/x", "/w/a/b/c", "/w/set.parity", "/w/x.par2 files/y.par", "/w/50% off/%d"}
	w.Dir = dirs[t.Pick([]int{12, 2, 2, 2, 1, 1, 1}, "dir")]
	w.Base = baseNames[t.Pick([]int{24, 4, 4, 4, 4, 1, 1, 1, 1, 1, 1}, "base")]
	w.Disk.MkdirAll(w.Dir)
	w.Disk.Cwd = w.Dir
	switch t.Pick([]int{5, 1, 1}, "cwd") {
	case 1:
		w.Disk.Cwd = filepath.Dir(w.Dir)
	case 2:
		w.Disk.MkdirAll("/elsewhere")
		w.Disk.Cwd = "/elsewhere"
	}
	ext := ".par2"
	if o.Par1 {
		ext = ".par"
	}
	w.Index = filepath.Join(w.Dir, w.Base+ext)
	if t.Bool(1, 2, "shuffled-listings") {
		// directory listings come back in an order chosen by the tape (the
		// fileIO interface promises none); sorted otherwise, like Glob
		w.Disk.Order = func(n int) []int {
			p := make([]int, n)
			for i := range p {
				p[i] = i
			}
			for i := n - 1; i > 0; i-- {
				j := t.Draw(i+1, "listing-order")
				p[i], p[j] = p[j], p[i]
			}
			return p
		}
		r.Probe("shuffled-directory-listing")
	}

	maxFiles := o.MaxFiles
	if maxFiles <= 0 {
		maxFiles = 6
	}
	nf := 1 + t.Pick([]int{3, 4, 4, 3, 2, 2}, "nfiles")
	if nf > maxFiles {
		nf = maxFiles
	}
	if !o.SmallOnly && maxFiles >= 20 && t.Bool(1, 25, "manyfiles") {
		nf = 20 + t.Draw(12, "manyfiles-n")
	}
	par1Full := false
	par1RoundBig := false
	if o.Par1 && !o.SmallOnly && maxFiles >= 20 && t.Bool(1, 60, "par1-full-set") {
		// PAR 1.0 allows 256 files and volumes altogether: fill it
		nf = []int{156, 157, 200, 254, 255}[t.Draw(5, "par1-nf")]
		par1Full = true
		r.Probe("par1-256-shards")
	}
	ss := o.SliceSizes
	if len(ss) == 0 {
		ss = sliceSizes
	}
	w.S = ss[t.Draw(len(ss), "slicesize")]
	if len(o.SliceSizes) == 0 && t.Bool(1, 100, "huge-slice") {
		// (gopar pads a fresh copy of the window at each of the last S
		// offsets of a damaged file, so these runs cost O(S^2))
		hs := []int{16384, 16388, 32768, 32772, 40000, 65536, 65540, 100000}
		if !r.Thorough() {
			hs = hs[:4]
		}
		w.S = hs[t.Draw(len(hs), "huge-slice-size")]
		r.Probe("slice>=16KiB")
	}
	maxTotal := o.MaxTotal
	if maxTotal <= 0 {
		maxTotal = 48 << 10
	}
	stems := nameStems
	if o.Par1 {
		stems = par1Stems
	} else if o.NoSubdirs {
		stems = []string{"f%d.dat", "data%d.bin", "with space %d.txt", "UPPER%d.DAT"}
	}
	total := 0
	for i := 0; i < nf; i++ {
		t.Begin("file")
		name := fmt.Sprintf(stems[t.Pick(weightsFirst(len(stems), 5), "stem")], i)
		if i > 0 && t.Bool(1, 12, "case-twin") {
			// a name that differs from the previous file's only in case
			prev := w.Files[i-1].Name
			used := false
			tw := caseTwin(prev)
			for _, f := range w.Files {
				if f.Name == tw {
					used = true
				}
			}
			if tw != prev && !used {
				name = tw
				r.Probe("names-differing-only-in-case")
			}
		}
		if i > 0 && !o.Par1 && !o.NoSubdirs && t.Bool(1, 12, "same-base-name") {
			// the previous file's base name again, in another directory
			prev := w.Files[i-1].Name
			cand := fmt.Sprintf("nest%d/%s", i, filepath.Base(prev))
			if strings.Contains(prev, "/") && t.Bool(1, 2, "flat") {
				cand = filepath.Base(prev)
			}
			used := false
			for _, f := range w.Files {
				if f.Name == cand {
					used = true
				}
			}
			if !used && !strings.Contains(prev, "\\") {
				name = cand
				r.Probe("protected-files-sharing-a-base-name")
			}
		}
		if dict := sourceDict(); len(dict) > 0 && t.Bool(1, 12, "dictionary-name") {
			// a name built around a string literal of the source tree under
			// test (suffixes, extensions, directory names the code itself uses)
			tok := dict[t.Draw(len(dict), "token")]
			cand := ""
			switch t.Draw(4, "shape") {
			case 0:
				if i > 0 {
					cand = w.Files[i-1].Name + tok
				} else {
					cand = fmt.Sprintf("f%d", i) + tok
				}
			case 1:
				cand = tok + fmt.Sprint(i)
			case 2:
				cand = tok + "/" + fmt.Sprintf("f%d", i)
			default:
				cand = fmt.Sprintf("f%d.", i) + tok
			}
			used := false
			for _, f := range w.Files {
				if f.Name == cand {
					used = true
				}
			}
			if !used && !strings.HasPrefix(cand, ".") && len(cand) < 200 && !((o.Par1 || o.NoSubdirs) && strings.Contains(cand, "/")) {
				name = cand
				r.Probe("name-from-source-dictionary")
			}
		}
		if i > 0 && !o.Par1 && !o.NoSubdirs && strings.Contains(w.Files[i-1].Name, "/") && t.Bool(1, 6, "directory-name-extends-previous") {
			// a sibling directory whose name merely begins with the name of
			// the previous file's directory (d1 and d10, sub and sub-old)
			prev := w.Files[i-1].Name
			cand := filepath.Dir(prev) + []string{"0", "2", "-old", ".bak", " (copy)", "_"}[t.Draw(6, "dir-suffix")] + "/" + fmt.Sprintf("g%d", i)
			if t.Bool(1, 2, "same-base") {
				cand = filepath.Dir(cand) + "/" + filepath.Base(prev)
			}
			used := false
			for _, f := range w.Files {
				if f.Name == cand {
					used = true
				}
			}
			if !used && !strings.Contains(prev, "\\") {
				name = cand
				r.Probe("directory-name-extends-another")
			}
		}
		if i > 0 && t.Bool(1, 14, "name-extends-previous") {
			// the previous file's name with a suffix that temporary or backup
			// copies usually get: both are protected files of the set
			cand := w.Files[i-1].Name + []string{".tmp", "~", ".bak", ".new", ".part", ".1"}[t.Draw(6, "suffix")]
			used := false
			for _, f := range w.Files {
				if f.Name == cand {
					used = true
				}
			}
			if !used && len(filepath.Base(cand)) < 250 {
				name = cand
				r.Probe("protected-name-extends-another")
			}
		}
		// no file may sit where another file's directory has to be (the
		// simulated disk would not mind, a real one refuses)
		for tries := 0; nameConflicts(w.Files, name); tries++ {
			name = fmt.Sprintf("u%d-%d.dat", i, tries)
			r.Probe("name-conflict-avoided")
		}
		var size int
		S := w.S
		if o.Par1 {
			S = 64
		}
		switch t.Pick([]int{8, 6, 6, 6, 2, 2, 2, 4, 1, 1}, "sizeclass") {
		case 8:
			// powers of two and their neighbours
			size = (1 << uint(5+t.Draw(13, "pow2"))) + t.Draw(3, "pow2-d") - 1
			if size > 70000 && !r.Thorough() {
				size = 65535 + t.Draw(3, "pow2-64k")
			}
		case 9:
			// multiples of 16384 and their neighbours
			size = 16384*(1+t.Draw(4, "k16")) + t.Draw(3, "k16-d") - 1
		case 0:
			size = 1 + t.Draw(40, "size")
		case 1:
			size = (1+t.Draw(6, "k"))*S - 1
		case 2:
			size = (1 + t.Draw(6, "k")) * S
		case 3:
			size = (1+t.Draw(6, "k"))*S + 1
		case 4:
			size = 16383 + t.Draw(3, "16k")
		case 5:
			size = 20000 + t.Draw(3000, "20k")
		case 6:
			size = 1 + t.Draw(4*S+1, "size4s")
		case 7:
			size = 1 + t.Draw(2000, "size2000")
		}
		if !o.Par1 && w.S >= 16384 {
			// with slices this large keep the files to a few slices
			size = []int{w.S, w.S - 1, w.S + 1, 2 * w.S, 20000, w.S / 2, 2*w.S + 5}[t.Draw(7, "huge-slice-filesize")]
		}
		if o.Par1 && t.Bool(1, 8, "empty") {
			size = 0
		}
		if par1Full {
			size = 1 + t.Draw(24, "tiny")
		}
		if o.Par1 && !o.SmallOnly && i == 0 && t.Bool(1, 250, "par1-round-big") {
			// a round, large file size (block-wise processing thresholds)
			size = []int{512 << 10, 1 << 20, 338880, 512 << 10}[t.Draw(4, "round-big")]
			par1RoundBig = true
			r.Probe("par1-round-big-file")
		}
		if size < 1 && !o.Par1 {
			size = 1
		}
		if o.SmallOnly && size > 8*S+1 && size > 300 {
			size = 1 + size%(8*S)
		}
		if total+size > maxTotal && size > 64 && !par1RoundBig && (o.Par1 || w.S < 16384 || total > 200000) {
			size = 1 + size%64
		}
		// bound the slice count for tiny slice sizes
		if !o.Par1 && size/w.S > 3000 && !r.Thorough() {
			size = 3000*w.S - 1
		}
		total += size
		kind := ckRandom
		if !o.RandomOnly {
			kind = t.Pick([]int{16, 4, 4, 4, 2, 2, 4, 3, 0, 4, 2}, "content")
			if !o.Par1 && w.S >= 64 && w.S <= 8192 && t.Bool(1, 30, "zero-after-16k") {
				// the zero tail stays within the slice that contains byte 16384
				kind = ckZeroAfter16k
				size = 16384 + 1 + t.Draw(w.S-16384%w.S, "zero-tail")
				r.Probe("zeros-after-16KiB")
			}
			if kind == ckCRCTwins {
				r.Probe("slices-sharing-crc32")
			}
		}
		// gopar credits a found slice to every location with equal
		// checksums, which is quadratic in the number of duplicate
		// slices: keep low-entropy content to moderately many slices
		if !o.Par1 && kind != ckRandom && size/w.S > 300 {
			kind = ckRandom
		}
		var data []byte
		if !o.RandomOnly && i > 0 && t.Bool(1, 10, "dup") {
			// duplicate of an earlier file (same bytes, other name)
			src := w.Files[t.Draw(len(w.Files), "dupof")]
			data = append([]byte(nil), src.Data...)
			if len(data) == 0 && !o.Par1 {
				data = []byte{1}
			}
			r.Probe("duplicate-file-content")
		} else if !o.RandomOnly && i > 0 && len(w.Files[i-1].Data) > 2 && t.Bool(1, 14, "prefix-or-suffix") {
			// the content is a proper prefix or suffix of the previous file's
			prev := w.Files[i-1].Data
			k := 1 + t.Draw(len(prev)-1, "cut")
			if t.Bool(1, 2, "suffix") {
				data = append([]byte(nil), prev[k:]...)
			} else {
				data = append([]byte(nil), prev[:k]...)
			}
			r.Probe("file-is-prefix-or-suffix-of-another")
		} else if !o.RandomOnly && i > 0 && len(w.Files[i-1].Data) > 16384 && t.Bool(1, 3, "near-dup-16k") {
			// same length and same first 16 KiB as the previous file,
			// different afterwards: the two files share their 16k hash
			data = append([]byte(nil), w.Files[i-1].Data...)
			g := prng{s: t.Draw64(0, "nseed")}
			for k := 0; k < 1+int(g.next()%5); k++ {
				o := 16384 + int(g.next()%uint64(len(data)-16384))
				data[o] ^= byte(1 + g.next()%255)
			}
			r.Probe("files-sharing-16k-prefix")
		} else {
			seed := t.Draw64(0, "cseed")
			ssz := w.S
			if o.Par1 {
				ssz = 16
			}
			data = expandContent(kind, seed, size, ssz)
			if !o.RandomOnly && !o.Par1 && i > 0 && len(data) >= 2*w.S && t.Bool(1, 8, "shared-slices") {
				// a few slices of this file repeat slices of an earlier file
				// (shared blocks, partial copies), at aligned positions
				src := w.Files[t.Draw(len(w.Files), "share-with")].Data
				if len(src) >= w.S {
					g := prng{s: t.Draw64(0, "share-seed")}
					for c := 0; c < 1+int(g.next()%3); c++ {
						from := int(g.next()%uint64(len(src)/w.S)) * w.S
						to := int(g.next()%uint64(len(data)/w.S)) * w.S
						copy(data[to:to+w.S], src[from:from+w.S])
					}
					r.Probe("files-sharing-some-slices")
				}
			}
		}
		w.Files = append(w.Files, ref.Protected{Name: name, Data: data})
		t.End()
	}
	if !o.Par1 {
		// the PAR2 format allows at most 32768 input slices; stay well
		// inside (growBig handles the deliberate large sets)
		limit := 12000
		if r.Thorough() {
			limit = 30000
		}
		for {
			n := 0
			big := 0
			for i, f := range w.Files {
				n += (len(f.Data) + w.S - 1) / w.S
				if len(f.Data) > len(w.Files[big].Data) {
					big = i
				}
			}
			if n <= limit {
				break
			}
			w.Files[big].Data = w.Files[big].Data[:len(w.Files[big].Data)/2+1]
		}
	}
	if o.Par1 {
		// a PAR1 set needs at least one byte of data to have parity at all
		nonEmpty := false
		for _, f := range w.Files {
			if len(f.Data) > 0 {
				nonEmpty = true
			}
		}
		if !nonEmpty {
			w.Files[0].Data = []byte{0x42}
		}
	}
	for i, f := range w.Files {
		w.Disk.Put(w.Path(i), f.Data)
		if len(f.Data) >= 16384 {
			r.Probe("file>=16KiB")
		}
	}
	// a name with backslashes is one ordinary file name here; an
	// unrelated file may well live at the path the name would denote
	// on another platform
	for _, f := range w.Files {
		if strings.Contains(f.Name, "\\") {
			p := filepath.Join(w.Dir, filepath.Clean(strings.Replace(f.Name, "\\", "/", -1)))
			if strings.HasPrefix(p, w.Dir+"/") {
				if _, exists := w.Disk.Get(p); !exists {
					data := expandContent(ckText, 31, 20, 4)
					w.Bystanders[p] = data
					w.Disk.Put(p, data)
					r.Probe("bystander-at-slash-translated-path")
				}
			}
		}
	}
	// a name with control characters is an ordinary name here; tools that
	// display, escape or "translate" such names produce another name, and
	// an unrelated file may well live under that one
	for i, f := range w.Files {
		ctl := strings.IndexFunc(f.Name, func(c rune) bool { return c < 32 || c == 127 })
		if ctl < 0 || !t.Bool(2, 3, "sanitised-name-bystander") {
			continue
		}
		scheme := t.Draw(7, "sanitising-scheme")
		var sb strings.Builder
		for _, c := range f.Name {
			if c >= 32 && c != 127 {
				sb.WriteRune(c)
				continue
			}
			switch scheme {
			case 0:
				fmt.Fprintf(&sb, "%02X", c)
			case 1:
				fmt.Fprintf(&sb, "%02x", c)
			case 2:
				fmt.Fprintf(&sb, "%%%02X", c)
			case 3:
				sb.WriteByte('_')
			case 4:
			case 5:
				fmt.Fprintf(&sb, "^%c", c^64)
			default:
				sb.WriteByte('?')
			}
		}
		p := filepath.Join(w.Dir, sb.String())
		taken := false
		for j := range w.Files {
			if w.Path(j) == p {
				taken = true
			}
		}
		if _, exists := w.Disk.Get(p); !exists && !taken && sb.String() != "" {
			data := expandContent(ckText, uint64(77+i), 24, 4)
			w.Bystanders[p] = data
			w.Disk.Put(p, data)
			r.Probe("bystander-at-sanitised-name")
		}
	}
	// an unrelated file beside the index (or in another directory of the
	// tree) with the same base name as a protected file in a sub-directory
	if !o.Par1 && t.Bool(1, 6, "same-base-name-bystander") {
		for _, f := range w.Files {
			if !strings.Contains(f.Name, "/") {
				continue
			}
			cands := []string{filepath.Join(w.Dir, filepath.Base(f.Name)), filepath.Join(w.Dir, "other", filepath.Base(f.Name))}
			p := cands[t.Draw(2, "where")]
			if _, exists := w.Disk.Get(p); exists || w.isProtectedPath(p) {
				continue
			}
			data := expandContent(ckText, 53, 34, 4)
			w.Bystanders[p] = data
			w.Disk.Put(p, data)
			r.Probe("bystander-with-base-name-of-nested-file")
			break
		}
	}
	// unrelated files whose names extend a protected file's or an archive
	// member's name (editor backups, temporary files)
	if t.Bool(1, 6, "name-extending-bystanders") {
		f := w.Files[t.Draw(len(w.Files), "ext-of")]
		suffixes := []string{".tmp", "~", ".bak", ".part"}
		if dict := sourceDict(); len(dict) > 0 {
			// ... and whatever suffix-like literals the source tree contains
			suffixes = append(suffixes, dict[t.Draw(len(dict), "token")], "."+dict[t.Draw(len(dict), "token2")])
		}
		for _, suffix := range suffixes {
			if t.Bool(1, 2, "ext") {
				p := filepath.Join(w.Dir, f.Name+suffix)
				if w.isProtectedPath(p) {
					continue
				}
				data := expandContent(ckText, 41, 12, 4)
				w.Bystanders[p] = data
				w.Disk.Put(p, data)
			}
		}
		for _, name := range []string{w.Base + ext + ".tmp", w.Base + ".vol00+01" + ext + ".tmp", w.Base + ".p01.tmp", w.Base + ext + "~"} {
			if t.Bool(1, 3, "ext-archive") {
				p := filepath.Join(w.Dir, name)
				data := expandContent(ckText, 43, 9, 4)
				w.Bystanders[p] = data
				w.Disk.Put(p, data)
			}
		}
		r.Probe("name-extending-bystanders")
	}
	// bystanders
	nb := t.Pick([]int{3, 2, 1}, "bystanders")
	for i := 0; i < nb; i++ {
		names := []string{"README", "other.par2.bak", "zz/unrelated.bin", "notes.txt", w.Base + "-old.par2x"}
		name := names[t.Draw(len(names), "byname")]
		data := expandContent(ckText, uint64(i)+7, 10+t.Draw(50, "bysize"), 4)
		p := filepath.Join(w.Dir, name)
		w.Bystanders[p] = data
		w.Disk.Put(p, data)
	}
	if !o.Par1 {
		for _, f := range w.Files {
			w.N += (len(f.Data) + w.S - 1) / w.S
		}
	}
	maxR := o.MaxR
	if maxR <= 0 {
		maxR = 8
	}
	if o.Par1 && par1Full {
		w.R = 256 - len(w.Files)
		if w.R > 99 {
			w.R = 99
		}
		if t.Bool(1, 3, "one-less") {
			w.R--
		}
		if w.R < 1 {
			w.R = 1
		}
	} else if o.Par1 && par1RoundBig {
		w.R = []int{64, 32, 99, 64}[t.Draw(4, "round-volumes")]
	} else if o.Par1 {
		w.R = 1 + t.Pick([]int{2, 3, 3, 2, 1, 1}, "volumes")
		if t.Bool(1, 20, "manyvolumes") {
			w.R = 7 + t.Draw(93, "volumes-n")
			if w.R+len(w.Files) > 255 {
				w.R = 255 - len(w.Files)
			}
		}
	} else {
		w.R = 1 + t.Pick(weightsFirst(maxR, 2), "recovery")
		if maxR >= 8 && t.Bool(1, 15, "manyrecovery") {
			w.R = []int{17, 33, 100, 130, 255, 256, 257}[t.Draw(7, "recovery-n")]
			if w.S > 256 && w.R > 33 {
				w.R = 33
			}
		}
	}
	gs := []int{1, 2, 3, 4, 7, 16, 64, 0}
	w.G = gs[t.Draw(len(gs), "goroutines")]
	if t.Bool(1, 3, "goroutines-any") {
		w.G = 1 + t.Draw(33, "goroutines-n")
	}
	r.Logf("world par1=%v dir=%s base=%q cwd=%s S=%d R=%d G=%d N=%d files=%s", w.Par1, w.Dir, w.Base, w.Disk.Cwd, w.S, w.R, w.G, w.N, w.describeFiles())
	if w.N > 256 {
		r.Probe(">256-slices")
	}
	return w
}

func weightsFirst(n, first int) []int {
	ws := make([]int, n)
	for i := range ws {
		ws[i] = 1
	}
	if n > 0 {
		ws[0] = first
	}
	return ws
}

func (w *World) describeFiles() string {
	var parts []string
	for _, f := range w.Files {
		parts = append(parts, fmt.Sprintf("%q:%d", f.Name, len(f.Data)))
	}
	return "[" + strings.Join(parts, " ") + "]"
}

// FilePaths returns the absolute paths of the protected files.
func (w *World) FilePaths() []string {
	out := make([]string, len(w.Files))
	for i := range w.Files {
		out[i] = w.Path(i)
	}
	return out
}

// RecoveryPaths returns the sorted paths of the files Create wrote
// other than the index.
func (w *World) RecoveryPaths() []string {
	var out []string
	for p := range w.Created {
		if p != w.Index {
			out = append(out, p)
		}
	}
	sort.Strings(out)
	return out
}

// ---- damage (media faults at rest) ----

// Damage kinds on data files.
var damageKinds = []string{"delete", "flip", "overwrite", "insert", "remove-bytes", "truncate", "append-garbage", "append-zeros", "strip-zeros", "swap", "copy-over", "forge-crc", "empty", "prepend", "strip-some-zeros"}

// DamageData applies one tape-chosen media fault to the protected
// files. enabled restricts the kinds (nil = all). Returns the kind.
func (w *World) DamageData(r *Run, enabled []string) string {
	t := r.T
	t.Begin("damage")
	defer t.End()
	kinds := enabled
	if len(kinds) == 0 {
		kinds = damageKinds
	}
	kind := kinds[t.Draw(len(kinds), "kind")]
	fi := t.Draw(len(w.Files), "file")
	p := w.Path(fi)
	cur, ok := w.Disk.Get(p)
	if !ok && kind != "swap" && kind != "copy-over" {
		// damaging a missing file: recreate it as garbage
		cur = []byte{}
	}
	cur = append([]byte(nil), cur...)
	g := prng{s: t.Draw64(0, "gseed")}
	garbage := func(n int) []byte {
		b := make([]byte, n)
		for i := range b {
			b[i] = byte(g.next())
		}
		return b
	}
	pos := func(label string, n int) int {
		if n <= 0 {
			return 0
		}
		// the file hashes change regime at 16 KiB: aim there sometimes
		if n > 16384 && t.Bool(1, 5, label+"-16k") {
			if k := 16383 + t.Draw(3, label+"-16k-d"); k < n {
				return k
			}
			return n - 1
		}
		// bias to slice boundaries and ends
		switch t.Pick([]int{3, 1, 1, 2}, label+"-class") {
		case 1:
			return 0
		case 2:
			return n - 1
		case 3:
			if !w.Par1 && n > w.S {
				k := t.Draw(n/w.S+1, label+"-k") * w.S
				k += t.Draw(3, label+"-d") - 1
				if k < 0 {
					k = 0
				}
				if k >= n {
					k = n - 1
				}
				return k
			}
		}
		return t.Draw(n, label)
	}
	lenDraw := func(label string) int {
		S := w.S
		if w.Par1 || S == 0 {
			S = 16
		}
		switch t.Pick([]int{3, 2, 1, 1}, label+"-class") {
		case 1:
			return 1 + t.Draw(S, label)
		case 2:
			return S + t.Draw(3, label) - 1 + 1
		case 3:
			return 1 + t.Draw(2*S+3, label)
		}
		return 1 + t.Draw(4, label)
	}
	desc := ""
	switch kind {
	case "delete":
		w.Disk.Remove(p)
	case "flip":
		if len(cur) == 0 {
			cur = []byte{0xff}
		} else {
			n := 1 + t.Draw(3, "nflips")
			for i := 0; i < n; i++ {
				o := pos("flip", len(cur))
				cur[o] ^= 1 << uint(t.Draw(8, "bit"))
				desc += fmt.Sprintf(" @%d", o)
			}
		}
		w.Disk.Put(p, cur)
	case "overwrite":
		if len(cur) == 0 {
			cur = garbage(3)
		} else {
			o := pos("ov", len(cur))
			l := lenDraw("ovlen")
			if o+l > len(cur) {
				l = len(cur) - o
			}
			copy(cur[o:o+l], garbage(l))
			desc = fmt.Sprintf(" @%d+%d", o, l)
		}
		w.Disk.Put(p, cur)
	case "insert":
		o := 0
		if len(cur) > 0 {
			o = pos("ins", len(cur)+1)
		}
		l := lenDraw("inslen")
		cur = append(cur[:o], append(garbage(l), cur[o:]...)...)
		desc = fmt.Sprintf(" @%d+%d", o, l)
		w.Disk.Put(p, cur)
	case "prepend":
		l := lenDraw("prelen")
		cur = append(garbage(l), cur...)
		desc = fmt.Sprintf(" +%d", l)
		w.Disk.Put(p, cur)
	case "remove-bytes":
		if len(cur) > 0 {
			o := pos("rm", len(cur))
			l := lenDraw("rmlen")
			if o+l > len(cur) {
				l = len(cur) - o
			}
			cur = append(cur[:o], cur[o+l:]...)
			desc = fmt.Sprintf(" @%d-%d", o, l)
		}
		w.Disk.Put(p, cur)
	case "truncate":
		if len(cur) > 0 {
			o := pos("trunc", len(cur))
			cur = cur[:o]
			desc = fmt.Sprintf(" @%d", o)
		}
		w.Disk.Put(p, cur)
	case "append-garbage":
		l := lenDraw("applen")
		cur = append(cur, garbage(l)...)
		desc = fmt.Sprintf(" +%d", l)
		w.Disk.Put(p, cur)
	case "append-zeros":
		l := lenDraw("zlen")
		cur = append(cur, make([]byte, l)...)
		desc = fmt.Sprintf(" +%d", l)
		w.Disk.Put(p, cur)
	case "strip-zeros":
		n := len(cur)
		for n > 0 && cur[n-1] == 0 {
			n--
		}
		if n == len(cur) && n > 0 {
			n--
		}
		desc = fmt.Sprintf(" -%d", len(cur)-n)
		cur = cur[:n]
		w.Disk.Put(p, cur)
	case "strip-some-zeros":
		// lose some, not all, of the trailing zero bytes
		z := 0
		for z < len(cur) && cur[len(cur)-1-z] == 0 {
			z++
		}
		k := 1
		if z > 1 {
			k = 1 + t.Draw(z, "nzeros")
		}
		if k > len(cur) {
			k = len(cur)
		}
		desc = fmt.Sprintf(" -%d of %d", k, z)
		cur = cur[:len(cur)-k]
		w.Disk.Put(p, cur)
	case "swap":
		if len(w.Files) < 2 {
			w.Disk.Remove(p)
			kind = "delete"
			break
		}
		fj := (fi + 1 + t.Draw(len(w.Files)-1, "other")) % len(w.Files)
		q := w.Path(fj)
		a, aok := w.Disk.Get(p)
		b, bok := w.Disk.Get(q)
		if bok {
			w.Disk.Put(p, b)
		} else {
			w.Disk.Remove(p)
		}
		if aok {
			w.Disk.Put(q, a)
		} else {
			w.Disk.Remove(q)
		}
		desc = fmt.Sprintf(" with %q", w.Files[fj].Name)
	case "copy-over":
		if len(w.Files) < 2 {
			w.Disk.Remove(p)
			kind = "delete"
			break
		}
		fj := (fi + 1 + t.Draw(len(w.Files)-1, "other")) % len(w.Files)
		if b, bok := w.Disk.Get(w.Path(fj)); bok {
			w.Disk.Put(p, b)
		} else {
			w.Disk.Remove(p)
		}
		desc = fmt.Sprintf(" from %q", w.Files[fj].Name)
	case "forge-crc":
		// replace one slice by different bytes with the same CRC32
		S := w.S
		if w.Par1 || S < 8 || len(cur) < S {
			if len(cur) > 0 {
				cur[len(cur)/2] ^= 0x55
			} else {
				cur = []byte{1}
			}
			w.Disk.Put(p, cur)
			kind = "flip"
			break
		}
		k := t.Draw(len(cur)/S, "slice")
		orig := append([]byte(nil), cur[k*S:(k+1)*S]...)
		forged := garbage(S)
		forgeCRC(forged, crc32.ChecksumIEEE(orig))
		copy(cur[k*S:], forged)
		desc = fmt.Sprintf(" slice %d", k)
		w.Disk.Put(p, cur)
		r.Probe("forged-crc-slice")
	case "empty":
		w.Disk.Put(p, []byte{})
	}
	r.Count("damage:" + kind)
	r.Logf("damage %s %q%s", kind, w.Files[fi].Name, desc)
	return kind
}

// forgeCRC rewrites the last 4 bytes of b so that its CRC-32 (IEEE)
// becomes want.
func forgeCRC(b []byte, want uint32) {
	n := len(b)
	// CRC register after processing b[:n-4] (without final xor)
	reg := ^crc32.ChecksumIEEE(b[:n-4])
	// we need bytes x0..x3 such that after processing them the register is ^want
	target := ^want
	// run the table backwards: find the 4 table indices
	var idx [4]byte
	cur := target
	for i := 3; i >= 0; i-- {
		// find table entry whose top byte equals the top byte of cur
		for j := 0; j < 256; j++ {
			if crc32.IEEETable[j]>>24 == cur>>24 {
				idx[i] = byte(j)
				cur = (cur ^ crc32.IEEETable[j]) << 8
				break
			}
		}
	}
	// forward: choose bytes so that the table index at each step is idx[i]
	for i := 0; i < 4; i++ {
		x := byte(reg) ^ idx[i]
		b[n-4+i] = x
		reg = crc32.IEEETable[idx[i]] ^ (reg >> 8)
	}
	if crc32.ChecksumIEEE(b) != want {
		// fall back: leave the bytes; the caller's probe simply will not see a collision
		binary.LittleEndian.PutUint32(b[n-4:], 0)
	}
}

// RestoreData restores one protected file to its original content.
func (w *World) RestoreData(r *Run) {
	t := r.T
	t.Begin("restore")
	defer t.End()
	fi := t.Draw(len(w.Files), "file")
	w.Disk.Put(w.Path(fi), w.Files[fi].Data)
	r.Logf("restore %q", w.Files[fi].Name)
}

// DeleteRecovery deletes a tape-chosen subset of recovery files; it
// returns the number deleted.
func (w *World) DeleteRecovery(r *Run) int {
	t := r.T
	t.Begin("delete-recovery")
	defer t.End()
	paths := w.RecoveryPaths()
	n := 0
	mode := t.Pick([]int{3, 3, 1, 1}, "mode")
	for i, p := range paths {
		del := false
		switch mode {
		case 1:
			del = t.Bool(1, 3, "del")
		case 2:
			del = i == 0 // lose the first volume: exponents no longer start at 0
		case 3:
			del = i != len(paths)-1
		}
		if del {
			if _, ok := w.Disk.Get(p); ok {
				w.Disk.Remove(p)
				n++
				r.Logf("delete recovery file %s", filepath.Base(p))
			}
		}
	}
	if n > 0 {
		r.Count("damage:delete-recovery-file")
	}
	return n
}

// caseTwin flips the case of the ASCII letters of the base name.
func caseTwin(name string) string {
	dir, base := filepath.Split(name)
	b := []byte(base)
	for i, c := range b {
		switch {
		case c >= 'a' && c <= 'z':
			b[i] = c - 32
		case c >= 'A' && c <= 'Z':
			b[i] = c + 32
		}
	}
	return dir + string(b)
}

// forgeCRCAt rewrites b[at:at+4] so that the CRC-32 (IEEE) of the whole
// of b becomes want. (The CRC of the tail after the forged bytes is an
// invertible affine function of the CRC before it: invert it by
// Gaussian elimination over GF(2), then forge the prefix.)
func forgeCRCAt(b []byte, at int, want uint32) bool {
	if at < 0 || at+4 > len(b) {
		return false
	}
	tail := b[at+4:]
	f := func(c uint32) uint32 { return crc32.Update(c, crc32.IEEETable, tail) }
	k := f(0)
	var rows [32]uint64 // row i: bit i of (M*c); augmented with the target bit at position 32
	tgt := want ^ k
	for col := 0; col < 32; col++ {
		v := f(1<<uint(col)) ^ k
		for i := 0; i < 32; i++ {
			if v&(1<<uint(i)) != 0 {
				rows[i] |= 1 << uint(col)
			}
		}
	}
	for i := 0; i < 32; i++ {
		if tgt&(1<<uint(i)) != 0 {
			rows[i] |= 1 << 32
		}
	}
	// Gauss-Jordan
	for col, rank := 0, 0; col < 32; col++ {
		piv := -1
		for i := rank; i < 32; i++ {
			if rows[i]&(1<<uint(col)) != 0 {
				piv = i
				break
			}
		}
		if piv < 0 {
			return false
		}
		rows[rank], rows[piv] = rows[piv], rows[rank]
		for i := 0; i < 32; i++ {
			if i != rank && rows[i]&(1<<uint(col)) != 0 {
				rows[i] ^= rows[rank]
			}
		}
		rank++
	}
	var c uint32
	for i := 0; i < 32; i++ {
		if rows[i]&(1<<32) != 0 {
			c |= 1 << uint(i)
		}
	}
	forgeCRC(b[:at+4], c)
	return crc32.ChecksumIEEE(b) == want
}
