package engine

import (
	"fmt"
	"path/filepath"
	"sort"
	"strings"

	"github.com/akalin/gopar/par2"

	"verifsim/ref"
	"verifsim/simdisk"
)

func init() {
	Register(&Profile{Name: "foreign-layout", Prop: "C06", Weight: 10, Quick: 40000, Thorough: 800000, Fn: func(r *Run) { foreignLayout(r, false) }})
	Register(&Profile{Name: "foreign-layout-real", Prop: "C06", Weight: 3, Quick: 3000, Thorough: 60000, Fn: func(r *Run) { foreignLayout(r, true) }})
	SetMeta("C06", &Meta{
		Level: "exploration",
		Rule:  "the reference writer (written from the PAR 2.0 specification, own shift-xor GF(2^16)) produces the packet multiset of a generated file set with an arbitrary recovery-exponent subset below 3000; a seeded transport permutes and duplicates packets, interleaves packets of a foreign recovery set and of an unknown type, and distributes the recovery packets over 1-4 arbitrarily named '<base>.<token>.par2' files (tokens and base names with spaces and glob metacharacters in the real-disk profile), within the quantifier's limits (index starts with a packet of its own set and holds no recovery packet, creator packet in every file, ASCII names); then 0-2 media faults, Verify and Repair. Oracles: the absolute oracles of C03/C01 against the reference truth, plus identity of ShardCounts with a gopar-created twin when the exponents are 0..n-1. Non-trivial: the layout differs from gopar's canonical one in at least two respects and Repair had work to do; distinct by (layout features, exponent class, naming class, damage kinds, outcome).",
		Assumptions: []string{
			"the reference writer is not claimed to be the specification: every produced file is re-read by the reference reader, and gopar's agreement with it on the unchanged tree (thousands of sets repaired from reference-written archives) is the evidence of its conformance",
			"MemDisk's directory search is a plain prefix/suffix match; the real-disk profile executes filepath.Glob-based discovery",
		},
		ProbesWant: []string{"non-contiguous-exponents", "exponent>=256", "duplicated-packet", "foreign-set-packet", "unknown-type-packet", "volume-without-main", "recovery-split-over-files", "glob-metachar-in-base", "glob-metachar-in-token", "space-in-name", "subdir-data-name", "twin-compared", "singular-case"},
	})
}

var c06Tokens = []string{"vol00+01", "vol01+02", "x", "anything goes", "part-2", "VOL001+002", "a.b.c", "recovery", "[1]", "a*b", "q?", "{z}", "vol[0-9]", "", ".", ".par2", "par2"}
var c06Bases = []string{"set", "my set", "s[1]", "a*b", "q?x", "x", "archive.v1", "[ab]c", "back\\slash", "trailing\\", "b\\[1]", "{a,b}", "~tilde", "-dash", "backup.par2.2019 [old]", "a.par2.b", "v.vol00+01", "data", "backup2", "wrap.", "rar"}

func hasGlobMeta(s string) bool { return strings.ContainsAny(s, "*?[\\") }

func foreignLayout(r *Run, real bool) {
	t := r.T
	// ---- file set ----
	nf := 1 + t.Draw(4, "nfiles")
	S := []int{4, 8, 16, 64, 100}[t.Draw(5, "S")]
	var files []ref.Protected
	n := 0
	stems := []string{"f%d.dat", "sub/f%d", "sub/deep/f%d.bin", "with space %d", "d%d/x", "rel..%d/data.bin", "wait...%d.txt", "a..b%d", "win\\f%d", "trail%d ", "dot%d.", "n%d", "abcdefg%d", "abcdefgh%d"}
	for i := 0; i < nf; i++ {
		name := fmt.Sprintf(stems[t.Pick([]int{4, 1, 1, 1, 1, 1, 1, 1, 1, 1, 1, 1, 1, 1}, "stem")], i)
		if strings.Contains(name, "/") {
			r.Probe("subdir-data-name")
		}
		size := 1 + t.Draw(6*S, "size")
		files = append(files, ref.Protected{Name: name, Data: expandContent(ckRandom, t.Draw64(0, "cseed"), size, S)})
		n += (size + S - 1) / S
	}
	if t.Bool(1, 25, "packet-body-near-a-buffer-size") {
		// packets whose body length is at or just below a typical buffer
		// size (1 KiB, 4 KiB, 8 KiB, 64 KiB): a recovery packet (slice size
		// + 4) or a slice-checksum packet (16 + 20 per slice)
		target := []int{1024, 4096, 8192, 65536}[t.Pick([]int{2, 4, 2, 1}, "buffer-size")] - 4*t.Draw(9, "below")
		if t.Bool(1, 2, "via-slice-size") && target <= 8192 {
			S = target - 4
			n = 0
			for i := range files {
				size := 1 + t.Draw(2*S, "size2")
				files[i].Data = expandContent(ckRandom, t.Draw64(0, "cseed2"), size, S)
				n += (size + S - 1) / S
			}
		} else {
			k := (target - 16) / 20
			if k > 2500 {
				k = 2500
			}
			n -= (len(files[0].Data) + S - 1) / S
			size := k*S - t.Draw(S, "tail2")
			files[0].Data = expandContent(ckRandom, t.Draw64(0, "cseed3"), size, S)
			n += k
		}
		r.Probe("packet-body-near-buffer-size")
	}
	if nf >= 2 && t.Bool(1, 30, "file-id-twins") {
		// two files whose file ids agree in their most significant 32 bits
		// (birthday search over names): the main packet lists ids in
		// numeric order, so near-ties are where a reader's comparison of
		// ids is put to the test
		data := files[0].Data
		if a, b, ok := fileIDTwins(data, 1<<18); ok {
			n -= (len(files[1].Data) + S - 1) / S
			files[0].Name, files[1].Name = a, b
			files[1].Data = data
			n += (len(data) + S - 1) / S
			r.Probe("file-id-twins")
		}
	}
	// ---- exponents ----
	var exps []int
	ne := 1 + t.Draw(6, "nexps")
	contiguous := t.Bool(1, 3, "contiguous")
	if contiguous {
		for e := 0; e < ne; e++ {
			exps = append(exps, e)
		}
	} else {
		seen := map[int]bool{}
		for len(exps) < ne {
			var e int
			switch t.Draw(3, "exp-class") {
			case 0:
				e = t.Draw(12, "exp-small")
			case 1:
				e = t.Draw(300, "exp-mid")
			default:
				e = t.Draw(3000, "exp-large")
			}
			if !seen[e] {
				seen[e] = true
				exps = append(exps, e)
			}
		}
		sort.Ints(exps)
		if n <= 24 && n*S <= 2048 && t.Bool(1, 3, "exponents-a-divisor-apart") {
			// the two lowest exponents differ by a divisor d of 65535 (the
			// order of the field's multiplicative group), the others lie
			// anywhere above: for slices whose constants' logarithms differ
			// by a multiple of 65535/d, the leading 2x2 minor of the decode
			// matrix vanishes while the whole matrix need not be singular -
			// the elimination has to exchange rows (exponents 0,1,2,... never
			// make it do that)
			d := []int{21845, 21845, 13107, 13107, 4369, 3855, 1285, 771, 257, 255, 85, 51}[t.Draw(12, "divisor")]
			e0 := t.Draw(65534-d, "e0")
			if t.Bool(1, 2, "e0-small") {
				e0 = t.Draw(12, "e0-small-value")
			}
			exps = []int{e0, e0 + d}
			seen := map[int]bool{e0: true, e0 + d: true}
			for k := 1 + t.Draw(4, "more-exponents"); k > 0; k-- {
				if e0+d+1 >= 65535 {
					break
				}
				e := e0 + d + 1 + t.Draw(65535-(e0+d+1), "exp-above")
				if !seen[e] {
					seen[e] = true
					exps = append(exps, e)
				}
			}
			sort.Ints(exps)
			r.Probe("exponents-a-divisor-of-65535-apart")
		}
	}
	if nonContiguous(exps) {
		r.Probe("non-contiguous-exponents")
	}
	if exps[len(exps)-1] >= 256 {
		r.Probe("exponent>=256")
	}
	set := ref.BuildSet(files, S, exps, "refwriter 1.0")
	foreign := ref.BuildSet([]ref.Protected{{Name: "foreign.bin", Data: expandContent(ckRandom, 4242, 2*S+1, S)}}, S, []int{0, 1}, "other")
	comment := ref.MakePacket(set.SetID, ref.TypeOf("PAR 2.0\x00CommASCI"), []byte("created by the reference writer"))

	// ---- transport: lay the packets out ----
	base := "set"
	if real {
		base = c06Bases[t.Draw(len(c06Bases), "base")]
	} else if t.Bool(1, 4, "base") {
		base = c06Bases[t.Draw(2, "base-mem")]
	}
	if hasGlobMeta(base) {
		r.Probe("glob-metachar-in-base")
	}
	if strings.Contains(base, " ") {
		r.Probe("space-in-name")
	}
	features := map[string]bool{}
	junk := func(pkts [][]byte, allowFirst bool) [][]byte {
		// duplicates, foreign-set packets, unknown-type packets
		nd := t.Draw(3, "ndup")
		for i := 0; i < nd && len(pkts) > 0; i++ {
			pkts = append(pkts, pkts[t.Draw(len(pkts), "dup")])
			features["dup"] = true
			r.Probe("duplicated-packet")
		}
		if t.Bool(1, 3, "foreign") {
			fp := append([][]byte{foreign.Creator}, foreign.CriticalPackets()...)
			fp = append(fp, foreign.Recovery[0])
			k := 1 + t.Draw(len(fp), "nforeign")
			pkts = append(pkts, fp[:k]...)
			features["foreign"] = true
			r.Probe("foreign-set-packet")
		}
		if t.Bool(1, 3, "unknown") {
			pkts = append(pkts, comment)
			features["unknown"] = true
			r.Probe("unknown-type-packet")
		}
		if t.Bool(1, 6, "client-specific") {
			// a client-specific packet of this set: the specification lets
			// any client define types under its own 8-byte prefix; the
			// rest of the type may well read like one of the standard ones
			prefix := []string{"ACME 1.0", "PAR 2.1\x00", "par 2.0\x00", "PAR 2.0 ", "\x00\x00\x00\x00\x00\x00\x00\x00"}[t.Draw(5, "prefix")]
			tail := []string{"Main\x00\x00\x00\x00", "RecvSlic", "FileDesc", "IFSC\x00\x00\x00\x00", "Creator\x00", "Notes\x00\x00\x00"}[t.Draw(6, "tail")]
			body := expandContent(ckRandom, t.Draw64(0, "cs-seed"), 4*(1+t.Draw(40, "cs-words")), 4)
			pkts = append(pkts, ref.MakePacket(set.SetID, ref.TypeOf(prefix+tail), body))
			features["unknown"] = true
			r.Probe("client-specific-packet-type")
		}
		return pkts
	}
	shuffle := func(pkts [][]byte, firstOwn bool) []byte {
		perm := drawPerm(r, len(pkts))
		out := make([][]byte, len(pkts))
		for i, j := range perm {
			out[i] = pkts[j]
		}
		if firstOwn {
			// the index must start with a packet of its own set
			for i, p := range out {
				if string(p[32:48]) == string(set.SetID[:]) {
					out[0], out[i] = out[i], out[0]
					break
				}
			}
		}
		var b []byte
		for _, p := range out {
			b = append(b, p...)
		}
		return b
	}
	canonicalOrder := t.Bool(1, 5, "canonical-order")
	idxPkts := append([][]byte{set.Creator}, set.CriticalPackets()...)
	var idx []byte
	if canonicalOrder {
		for _, p := range idxPkts {
			idx = append(idx, p...)
		}
	} else {
		idx = shuffle(junk(idxPkts, false), true)
		features["permuted"] = true
	}
	// volume files
	nv := 1 + t.Draw(4, "nvolumes")
	volPkts := make([][][]byte, nv)
	for _, e := range exps {
		k := t.Draw(nv, "assign")
		volPkts[k] = append(volPkts[k], set.Recovery[e])
		if t.Bool(1, 6, "also") {
			k2 := t.Draw(nv, "assign2")
			if k2 != k {
				volPkts[k2] = append(volPkts[k2], set.Recovery[e])
				features["dup"] = true
			}
		}
	}
	used := 0
	for _, v := range volPkts {
		if len(v) > 0 {
			used++
		}
	}
	if used > 1 {
		r.Probe("recovery-split-over-files")
	}
	d := simdisk.NewMem()
	dir := []string{"/w/set", "/w/set", "/w/set", "/w/sets.par2/x", "/w/a b/c.par2.d"}[t.Draw(5, "dir")]
	d.MkdirAll(dir)
	d.Cwd = dir
	w := &World{Disk: d, Dir: dir, Base: base, Index: filepath.Join(dir, base+".par2"), Files: files, S: S, R: len(exps), G: 1, N: n,
		Created: map[string][]byte{}, Bystanders: map[string][]byte{}, Exps: map[string][]int{}}
	for i, f := range files {
		d.Put(w.Path(i), f.Data)
	}
	w.Created[w.Index] = idx
	tokenUsed := map[string]bool{}
	prevTok := ""
	for k, pk := range volPkts {
		tok := c06Tokens[t.Draw(len(c06Tokens), "token")]
		if k > 0 && t.Bool(1, 6, "case-twin-token") {
			// a name that differs from the previous volume's only in the
			// case of its letters
			if tw := caseTwin(prevTok); tw != prevTok && !tokenUsed[tw] {
				tok = tw
				r.Probe("volume-names-differing-only-in-case")
			}
		}
		if !real && hasGlobMeta(tok) && false {
			tok = "x"
		}
		for tokenUsed[tok] {
			tok += fmt.Sprint(k)
		}
		tokenUsed[tok] = true
		prevTok = tok
		if hasGlobMeta(tok) {
			r.Probe("glob-metachar-in-token")
		}
		if strings.Contains(tok, " ") {
			r.Probe("space-in-name")
		}
		all := append([][]byte{set.Creator}, pk...)
		switch t.Draw(3, "critical-in-volume") {
		case 0:
			all = append(all, set.CriticalPackets()...)
		case 1:
			all = append(all, set.Main)
		default:
			features["volume-without-main"] = true
			r.Probe("volume-without-main")
		}
		b := shuffle(junk(all, true), false)
		w.Created[filepath.Join(dir, base+"."+tok+".par2")] = b
	}
	if t.Bool(1, 6, "volume-copy") {
		// a whole volume file stored a second time under another name
		rec := w.RecoveryPaths()
		if len(rec) > 0 {
			src := rec[t.Draw(len(rec), "copy-of")]
			w.Created[strings.TrimSuffix(src, ".par2")+" (copy).par2"] = w.Created[src]
			features["volume-copy"] = true
			r.Probe("volume-file-copied")
		}
	}
	if t.Bool(1, 5, "sibling-set-file") {
		// a file of ANOTHER recovery set whose name matches '<base>.*.par2'
		// (the index or a volume of a sibling set such as '<base>.web.par2'):
		// it holds no packet of this set at all
		var sb []byte
		sb = append(sb, foreign.Creator...)
		for _, p := range foreign.CriticalPackets() {
			sb = append(sb, p...)
		}
		if t.Bool(1, 2, "with-recovery") {
			sb = append(sb, foreign.Recovery[0]...)
			sb = append(sb, foreign.Recovery[1]...)
		}
		name := base + "." + []string{"web", "aaa", "zzz", "vol99+02", "0"}[t.Draw(5, "sibling-token")] + ".par2"
		if _, clash := w.Created[filepath.Join(dir, name)]; !clash {
			d.Put(filepath.Join(dir, name), sb)
			w.Bystanders[filepath.Join(dir, name)] = sb
			features["sibling-set"] = true
			r.Probe("sibling-set-file-beside-the-index")
		}
	}
	for p, b := range w.Created {
		d.Put(p, b)
		// the reference reader must read back what the reference writer wrote
		if _, dmg := ref.ParsePackets(b); dmg {
			r.Violate("infra-reference-writer", "the reference reader rejects a file the reference writer produced (%s)", filepath.Base(p))
		}
	}
	r.Logf("foreign layout base=%q S=%d N=%d exps=%v files=%v features=%v", base, S, n, exps, baseNamesOf(w.RecoveryPaths()), keysOf(features))

	// ---- media faults ----
	var kinds []string
	nd := t.Pick([]int{2, 5, 3}, "ndamage")
	for i := 0; i < nd; i++ {
		kinds = append(kinds, w.DamageData(r, []string{"delete", "flip", "overwrite", "insert", "truncate", "swap", "remove-bytes"}))
	}
	var rw *RealWorld
	if real {
		rw = r.Materialise(w)
	}
	tr := w.TruthPar2()
	premise := premiseRepair2(tr)

	// ---- Verify ----
	var v *OpResult
	if real {
		v = r.realOp(rw, "verify2-real", func(res *OpResult) {
			vr, err := par2.Verify(rw.Real(w.Index), par2.VerifyOptions{NumGoroutines: 2})
			res.Err = err
			if err == nil {
				res.HasRes = true
				res.Counts = vr.ShardCounts
			}
		})
	} else {
		v = r.Verify2(w, w.Index, 2, nil, SchedSpec{})
	}
	r.noPanic(v)
	if v.Err != nil {
		r.Violate("verify-error", "Verify rejects a conformant set (%v); layout features %v, files %v", v.Err, keysOf(features), baseNamesOf(w.RecoveryPaths()))
	}
	r.oracleVerify2(w, v, tr, true, true)

	// ---- twin (gopar-created set for the same files) ----
	if contiguous && !real {
		tw := *w
		tw.Disk = simdisk.NewMem()
		tw.Disk.MkdirAll(dir)
		tw.Disk.Cwd = dir
		tw.Base = "twin"
		tw.Index = filepath.Join(dir, "twin.par2")
		for i, f := range files {
			tw.Disk.Put(tw.Path(i), f.Data)
		}
		tw.R = len(exps)
		c := r.Create2(&tw, tw.FilePaths(), nil, SchedSpec{})
		r.noPanic(c)
		if c.Err == nil {
			// same damaged data
			for i := range files {
				if b, ok := w.Disk.Get(w.Path(i)); ok {
					tw.Disk.Put(tw.Path(i), b)
				} else {
					tw.Disk.Remove(tw.Path(i))
				}
			}
			tv := r.Verify2(&tw, tw.Index, 2, nil, SchedSpec{})
			r.noPanic(tv)
			if tv.HasRes && v.HasRes && tv.Counts != v.Counts {
				r.Violate("twin-differs", "ShardCounts %+v for the reference-written set, %+v for gopar's own set of the same files and damage", v.Counts, tv.Counts)
			}
			r.Probe("twin-compared")
		}
	}

	// ---- Repair ----
	var rep *OpResult
	if real {
		rep = r.realOp(rw, "repair2-real", func(res *OpResult) {
			rr, err := par2.Repair(rw.Real(w.Index), par2.RepairOptions{NumGoroutines: 2, DoubleCheck: t.Bool(1, 2, "dc")})
			res.Err = err
			res.Repaired = rr.RepairedPaths
		})
		rw.Pull()
	} else {
		rep = r.Repair2(w, w.Index, 2, t.Bool(1, 2, "dc"), nil, SchedSpec{})
	}
	r.noPanic(rep)
	r.oracleRepair2(w, rep, tr)
	outcome := "repaired"
	if rep.Err != nil {
		outcome = "failed"
	}
	sort.Strings(kinds)
	expClass := "contiguous"
	if !contiguous {
		expClass = "sparse"
		if exps[len(exps)-1] >= 256 {
			expClass = "sparse>=256"
		}
	}
	r.Class = fmt.Sprintf("real=%v base-meta=%v feat=%v exps=%s nv=%d dmg=%v premise=%v out=%s", real, hasGlobMeta(base), keysOf(features), expClass, nv, uniq(kinds), premise, outcome)
	r.Nontriv = len(features) >= 2 && nd > 0
}

func keysOf(m map[string]bool) []string {
	var out []string
	for k := range m {
		out = append(out, k)
	}
	sort.Strings(out)
	return out
}
