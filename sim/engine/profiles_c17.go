package engine

import (
	"bytes"
	"fmt"
	"os"
	"path/filepath"
	"strings"
	"time"
	"verifsim/simdisk"

	"github.com/akalin/gopar/par1"
	"github.com/akalin/gopar/par2"

	"verifsim/ref"
	"verifsim/sched"
)

func init() {
	Register(&Profile{Name: "determinism-mem", Prop: "C17", Weight: 10, Quick: 3500, Thorough: 120000, Fn: determinismMem})
	Register(&Profile{Name: "determinism-real", Prop: "C17", Weight: 3, Quick: 400, Thorough: 8000, Fn: determinismReal})
	SetMeta("C17", &Meta{
		Level: "exploration",
		Rule:  "determinism-mem: the same inputs are Created on clones of the simulated disk: repeated r>=5 times in one process (samples Go's map iteration order), across goroutine counts with driven worker schedules, with the input list permuted (PAR2: all permutations for <= 4 files, random ones otherwise) and with redundant absolute spellings (//, /./, /../); determinism-real: the production file layer and the par binary on a tmpfs directory, invoked from the set's directory, its parent and an unrelated directory with relative, absolute, ./x, d//x, d/./x and d/../d/x spellings. Oracle: the set of files written and their bytes equal those of the canonical run. Non-trivial: at least two variants beyond plain repetition were compared; distinct by (format, variation kinds, file count, S, R classes).",
		Assumptions: []string{
			"Go's map iteration order cannot be pinned by a seed: it is sampled by repetition; a violation caused by it is replayed in repeat-until-divergence mode",
			"PAR1 numbering follows the order of the input list by design, so PAR1 inputs are not permuted",
		},
		ProbesWant: []string{"permutation", "goroutines", "repeat", "spelling", "cwd-parent", "cwd-unrelated", "cli", "par1", "driven-schedule"},
	})
}

func writesOf(res *OpResult) map[string][]byte {
	out := map[string][]byte{}
	for _, a := range res.Writes() {
		if a.Err == "" {
			out[a.Resolved] = a.Data
		}
	}
	return out
}

func spell(r *Run, p string) string {
	// redundant but equivalent absolute spellings
	dir, base := filepath.Split(p)
	dir = strings.TrimSuffix(dir, "/")
	switch r.T.Draw(5, "spelling") {
	case 1:
		return dir + "//" + base
	case 2:
		return dir + "/./" + base
	case 3:
		return dir + "/../" + filepath.Base(dir) + "/" + base
	case 4:
		return "/" + p
	}
	return p
}

func determinismMem(r *Run) {
	t := r.T
	par1Set := t.Bool(1, 4, "par1")
	w := GenWorld(r, GenOpts{Par1: par1Set, MaxFiles: 6, MaxTotal: 72 << 10, MaxR: 6})
	base := w.Disk.Clone()
	var canon map[string][]byte
	canonFailed, mayFail := false, false
	var plan []simdisk.Fault
	create := func(label string, paths []string, index string, g int, spec SchedSpec) {
		w2 := *w
		w2.Disk = base.Clone()
		w2.G = g
		var c *OpResult
		if par1Set {
			c = r.Create1(&w2, index, paths, plan)
		} else {
			w2.Index = index
			c = r.Create2(&w2, paths, plan, spec)
		}
		r.noPanic(c)
		if plan != nil && (c.Err != nil || canon == nil) {
			// a Create that met an I/O fault may fail (C18 decides whether it
			// must); only one that reports success is held to the same bytes
			r.Count("outcome:faulty-create-failed")
			return
		}
		for _, v := range c.SchedV {
			r.Violate(v.Kind, "Create (%s): %s", label, v.Detail)
		}
		got := writesOf(c)
		if canon == nil {
			canon = got
			canonFailed = c.Err != nil
			if canonFailed && !mayFail {
				r.Violate("create-failed", "canonical Create failed: %v", c.Err)
			} else if len(canon) == 0 && !mayFail {
				r.Violate("create-failed", "Create wrote nothing")
			}
			return
		}
		if (c.Err != nil) != canonFailed {
			r.Violate("outputs-differ", "%s: Create returned %v where the canonical run returned failed=%v", label, c.Err, canonFailed)
		}
		if d := diffFileSets(canon, got); d != "" {
			r.Violate("outputs-differ", "%s: %s", label, d)
		}
	}
	paths := w.FilePaths()
	if t.Bool(1, 25, "megabyte-file") {
		// buffers of a megabyte and more (allocation strategies tend to
		// change with size)
		size := (1 << 20) + t.Draw(1<<19, "mb-size")
		data := expandContent(ckRandom, t.Draw64(0, "mb-seed"), size, 64)
		if !par1Set {
			// stay inside the format's limit of 32768 slices per set
			others := 0
			for _, f := range w.Files[1:] {
				others += (len(f.Data) + w.S - 1) / w.S
			}
			room := 30000 - others
			if room < 1 {
				room = 1
			}
			if (len(data)+w.S-1)/w.S > room {
				data = data[:room*w.S-1]
			}
		}
		w.Files[0].Data = data
		base.Put(w.Path(0), data)
		r.Probe("file>=1MiB")
	}
	if !par1Set && len(w.Files) >= 2 && t.Bool(1, 60, "beyond-the-slice-limit") {
		// a set that needs somewhat more than the format's 32768 slices at
		// the requested slice size (and just under it at twice or four
		// times that size): whatever Create does about it - refuse, or
		// choose a larger slice size - it must do the same for every order
		// and spelling of the same inputs
		k := 1 + t.Draw(2, "doublings")
		s2 := 4 << uint(k)
		others := 0
		for _, f := range w.Files[1:] {
			others += (len(f.Data) + s2 - 1) / s2
		}
		if others < 2000 {
			w.S = 4
			want := 32768 - others - t.Draw(len(w.Files)+2, "margin")
			data := expandContent(ckRandom, t.Draw64(0, "limit-seed"), want*s2-t.Draw(s2, "limit-tail"), 64)
			w.Files[0].Data = data
			base.Put(w.Path(0), data)
			if w.R > 3 {
				w.R = 1 + t.Draw(3, "limit-R")
			}
			mayFail = true
			r.Probe("inputs-beyond-the-slice-limit")
		}
	}
	if !par1Set && t.Bool(1, 25, "long-path-twins") {
		// two copies of one file deep in the tree: their names (relative to
		// the index file) are longer than 255 bytes and differ only after
		// their first 255 / 256 / 300 bytes
		comp := strings.Repeat("deep-directory-", 4)
		prefix := ""
		for len(prefix) < []int{255, 256, 300, 1000}[t.Draw(4, "shared-prefix")] {
			prefix += comp + "/"
		}
		data := expandContent(ckRandom, t.Draw64(0, "twin-seed"), 1+t.Draw(3*w.S+5, "twin-len"), w.S)
		for _, leaf := range []string{"copy-a.dat", "copy-b.dat"} {
			f := w.Files[0]
			f.Name = prefix + leaf
			f.Data = data
			w.Files = append(w.Files, f)
			w.N += (len(data) + w.S - 1) / w.S
			base.Put(w.Path(len(w.Files)-1), data)
		}
		paths = w.FilePaths()
		r.Probe("identical-files-with-long-common-path-prefix")
	}
	if !par1Set && len(w.Files) >= 3 && t.Bool(1, 30, "empty-input-file") {
		// a zero-length file among the inputs (not the last ones): whatever
		// Create does about it - refuse, or leave it out - it must do the
		// same for every order of the list
		k := t.Draw(len(w.Files)-2, "which-empty")
		w.Files[k].Data = []byte{}
		base.Put(w.Path(k), []byte{})
		mayFail = true
		r.Probe("empty-input-file")
	}
	if !par1Set && t.Bool(1, 40, "many-input-files") {
		// 65-200 tiny input files, the first one slow to read (a straggler
		// among fast reads matters to code that reads ahead or in parallel)
		extra := 65 + t.Draw(136, "n-extra")
		msize := 24
		if w.S < 24 {
			msize = 2 * w.S
		}
		for i := 0; i < extra; i++ {
			f := ref.Protected{Name: fmt.Sprintf("m%03d.dat", i), Data: expandContent(ckRandom, t.Draw64(0, "m-seed"), 1+t.Draw(msize, "m-size"), 4)}
			w.Files = append(w.Files, f)
			base.Put(w.Path(len(w.Files)-1), f.Data)
		}
		if w.R > 4 {
			w.R = 1 + t.Draw(4, "m-R")
		}
		base.Slow = map[string]time.Duration{base.Resolve(w.Path(0)): 3 * time.Millisecond}
		paths = w.FilePaths()
		r.Probe("many-input-files-one-slow")
	}
	if !par1Set && t.Bool(1, 60, "sparse-slices") {
		// slice sizes of 8-16 KiB that are not a multiple of 16, sparse
		// content (zeros up to the last bytes of each slice): where
		// per-goroutine stripes end and what they contain then matters
		w.S = []int{8196, 12292, 16388}[t.Draw(3, "sparse-S")]
		for i := range w.Files {
			size := w.S*(1+t.Draw(2, "sparse-slices")) - t.Draw(2, "sparse-short")*t.Draw(w.S/2, "sparse-tail")
			data := expandContent(ckZeroLed, t.Draw64(0, "sparse-seed"), size, w.S)
			w.Files[i].Data = data
			base.Put(w.Path(i), data)
		}
		if w.R > 4 {
			w.R = 1 + t.Draw(4, "sparse-R")
		}
		r.Probe("sparse-slices-not-multiple-of-16")
	}
	if !par1Set && t.Bool(1, 120, "big-volumes") {
		// recovery volumes of several MiB holding several blocks each
		// (writers tend to treat big files differently: buffering,
		// chunking, parallel assembly)
		w.S = []int{256 << 10, 512 << 10, 1 << 20, 2 << 20}[t.Draw(4, "big-s")]
		w.R = 3 + t.Draw(13, "big-r")
		size := w.S/2 + t.Draw(2*w.S, "big-size")
		data := expandContent(ckRandom, t.Draw64(0, "big-seed"), size, 64)
		w.Files[0].Data = data
		base.Put(w.Path(0), data)
		r.Probe("big-volumes")
	}
	if !par1Set && len(w.Files) >= 2 && t.Bool(1, 30, "file-id-twins") {
		// two files whose PAR2 file ids agree in their most significant 32
		// bits (found by a birthday search over names): the recovery set
		// is ordered by file id, so near-ties are where an ordering bug hides
		data := expandContent(ckRandom, t.Draw64(0, "twin-seed"), 20+t.Draw(40, "twin-size"), 4)
		if a, b, ok := fileIDTwins(data, 1<<18); ok {
			for k, name := range []string{a, b} {
				base.Remove(w.Path(k))
				w.Files[k].Name = name
				w.Files[k].Data = data
				base.Put(w.Path(k), data)
			}
			paths = w.FilePaths()
			r.Probe("file-id-twins")
		}
	}
	create("canonical", paths, w.Index, 1, SchedSpec{})
	// an unrelated set created in between, in the same process: results
	// must not depend on what the process did before
	unrelated := func() {
		u := GenWorld(r, GenOpts{Par1: par1Set, MaxFiles: 3, MaxTotal: 8 << 10, MaxR: 4})
		if t.Bool(1, 4, "unrelated-big") {
			d := expandContent(ckRandom, t.Draw64(0, "ub-seed"), (1<<20)+t.Draw(1<<18, "ub-size"), 64)
			if !par1Set {
				others := 0
				for _, f := range u.Files[1:] {
					others += (len(f.Data) + u.S - 1) / u.S
				}
				room := 30000 - others
				if room < 1 {
					room = 1
				}
				if (len(d)+u.S-1)/u.S > room {
					d = d[:room*u.S-1]
				}
			}
			u.Files[0].Data = d
			u.Disk.Put(u.Path(0), d)
		}
		var c *OpResult
		if par1Set {
			c = r.Create1(u, u.Index, u.FilePaths(), nil)
		} else {
			c = r.Create2(u, u.FilePaths(), nil, SchedSpec{})
		}
		r.noPanic(c)
		r.Probe("unrelated-create-in-between")
	}
	var variations []string
	// repetition (map iteration order)
	reps := 4
	for i := 0; i < reps; i++ {
		if i%2 == 1 && t.Bool(1, 2, "unrelated-between") {
			unrelated()
		}
		create(fmt.Sprintf("repeat %d", i+1), paths, w.Index, 1, SchedSpec{})
	}
	r.Probe("repeat")
	nvar := 2 + t.Draw(4, "nvariants")
	for i := 0; i < nvar; i++ {
		t.Begin("variant")
		p2 := append([]string(nil), paths...)
		index := w.Index
		g := 1
		spec := SchedSpec{}
		var label []string
		if !par1Set && t.Bool(1, 2, "permute") && len(p2) > 1 {
			perm := drawPerm(r, len(p2))
			for k, j := range perm {
				p2[k] = paths[j]
			}
			label = append(label, "permutation")
			r.Probe("permutation")
		}
		if !par1Set && t.Bool(1, 2, "goroutines") {
			g = []int{2, 3, 4, 7, 16, 64, 0}[t.Draw(7, "g")]
			label = append(label, fmt.Sprintf("goroutines=%d", g))
			r.Probe("goroutines")
			if t.Bool(1, 2, "drive") {
				spec = SchedSpec{Mode: sched.Drive, Strategy: t.Draw(stratCount, "strategy")}
				r.Probe("driven-schedule")
			}
		}
		if t.Bool(1, 2, "spelling") {
			for k := range p2 {
				p2[k] = spell(r, p2[k])
			}
			index = spell(r, index)
			label = append(label, "spelling")
			r.Probe("spelling")
		}
		if len(label) == 0 {
			label = []string{"repeat"}
		}
		variations = append(variations, label...)
		create(strings.Join(label, "+"), p2, index, g, spec)
		t.End()
	}
	if !canonFailed && t.Bool(1, 5, "read-fault-variant") {
		// one read of one input fails once (with one of the error values of
		// the simulated disk, among them errnos that call themselves
		// temporary): a Create that nevertheless reports success must have
		// written the bytes of the fault-free run
		k := t.Draw(len(paths), "faulty-input")
		plan = []simdisk.Fault{{Path: base.Resolve(paths[k]), Op: 'R', Occ: 1, Kind: simdisk.ReadEIO, ErrStyle: t.Draw(5, "error-style")}}
		create("read-fault", paths, w.Index, 1, SchedSpec{})
		plan = nil
		variations = append(variations, "read-fault")
		r.Probe("read-fault-variant")
	}
	if par1Set {
		r.Probe("par1")
	}
	r.Class = fmt.Sprintf("mem par1=%v nf=%d S=%s R=%s var=%v", par1Set, len(w.Files), sClass(w.S), sizeClass(w.R), uniqSorted(variations))
	r.Nontriv = len(uniqSorted(variations)) >= 2 || (len(variations) > 0 && variations[0] != "repeat")
}

func uniqSorted(s []string) []string {
	m := map[string]bool{}
	for _, x := range s {
		m[x] = true
	}
	var out []string
	for x := range m {
		out = append(out, x)
	}
	sortStrings(out)
	return out
}

func sortStrings(s []string) {
	for i := 1; i < len(s); i++ {
		for j := i; j > 0 && s[j] < s[j-1]; j-- {
			s[j], s[j-1] = s[j-1], s[j]
		}
	}
}

// determinismReal: the production file layer and the CLI, varying the
// working directory and the spelling of paths.
func determinismReal(r *Run) {
	t := r.T
	par1Set := t.Bool(1, 4, "par1")
	w := GenWorld(r, GenOpts{Par1: par1Set, MaxFiles: 4, MaxTotal: 8 << 10, MaxR: 4, SmallOnly: true})
	if w.G == 0 {
		w.G = 2
	}
	rw := r.Materialise(w)
	os.MkdirAll(rw.Real("/elsewhere"), 0755)
	setDir := rw.Real(w.Dir)
	ext := ".par2"
	if par1Set {
		ext = ".par"
	}
	origWD, _ := os.Getwd()
	defer os.Chdir(origWD)

	// spell a path (given relative to the set directory) as seen from cwd
	spellFrom := func(cwdKind int, style int, rel string) string {
		abs := filepath.Join(setDir, rel)
		parent := filepath.Dir(setDir)
		name := filepath.Base(setDir)
		switch style {
		case 0: // relative to cwd
			switch cwdKind {
			case 0:
				return rel
			case 1:
				return name + "/" + rel
			default:
				return abs
			}
		case 1:
			return abs
		case 2: // ./x
			switch cwdKind {
			case 0:
				return "./" + rel
			case 1:
				return "./" + name + "/" + rel
			default:
				return abs
			}
		case 3: // d//x
			switch cwdKind {
			case 1:
				return name + "//" + rel
			default:
				return parent + "//" + name + "//" + rel
			}
		case 4: // d/./x
			switch cwdKind {
			case 1:
				return name + "/./" + rel
			default:
				return setDir + "/./" + rel
			}
		default: // d/../d/x
			switch cwdKind {
			case 1:
				return name + "/../" + name + "/" + rel
			default:
				return setDir + "/../" + name + "/" + rel
			}
		}
	}
	cwdOf := func(kind int) string {
		switch kind {
		case 0:
			return setDir
		case 1:
			return filepath.Dir(setDir)
		}
		return rw.Real("/elsewhere")
	}
	var canon map[string][]byte
	leftovers := 0
	dupOf, dupStyle := -1, 0
	if !par1Set && t.Bool(1, 6, "input-listed-twice") {
		dupOf = t.Draw(len(w.Files), "dup-of")
		r.Probe("input-listed-twice")
	}
	run := func(label string, cwdKind, style int, cli bool, g int) {
		switch leftovers {
		case 0:
			rw.removeArchive()
		case 2:
			// the archive files of the previous run stay, and are longer
			// than what will be written (an older, bigger generation)
			for name, b := range rw.archiveFiles() {
				junk := expandContent(ckRandom, uint64(len(b)), 1+len(b)/2, 4)
				os.WriteFile(filepath.Join(setDir, name), append(append([]byte(nil), b...), junk...), 0644)
			}
		}
		index := spellFrom(cwdKind, style, w.Base+ext)
		var files []string
		for _, f := range w.Files {
			files = append(files, spellFrom(cwdKind, style, f.Name))
		}
		if dupOf >= 0 {
			// one input is listed a second time, in a spelling of its own
			files = append(files, spellFrom(cwdKind, dupStyle, w.Files[dupOf].Name))
		}
		cwd := cwdOf(cwdKind)
		if cli {
			args := []string{"-g", fmt.Sprint(g), "create"}
			if !par1Set {
				args = append(args, "-s", fmt.Sprint(w.S))
			}
			args = append(args, "-c", fmt.Sprint(w.R), index)
			args = append(args, files...)
			res := r.RunPar(cwd, args...)
			if res.Status != 0 {
				r.Violate("outputs-differ", "%s: par create exited %d: %s", label, res.Status, lastLines(strings.Replace(res.Stdout, rw.Root, "", -1), 3))
			}
		} else {
			if err := os.Chdir(cwd); err != nil {
				panic(err)
			}
			var err error
			func() {
				defer func() {
					if x := recover(); x != nil {
						r.Violate("panic", "%s: Create panicked: %v", label, x)
					}
				}()
				if par1Set {
					err = par1.Create(index, files, par1.CreateOptions{NumParityFiles: w.R})
				} else {
					err = par2.Create(index, files, par2.CreateOptions{SliceByteCount: w.S, NumParityShards: w.R, NumGoroutines: g})
				}
			}()
			os.Chdir(origWD)
			r.Logf("lib create %s -> %v", label, err != nil)
			r.Count("op:create-real")
			if err != nil {
				r.Violate("outputs-differ", "%s: Create failed: %s", label, strings.Replace(err.Error(), rw.Root, "", -1))
			}
		}
		got := rw.archiveFiles()
		if canon == nil {
			canon = got
			if len(canon) < 2 {
				r.Violate("create-failed", "canonical Create on the real disk wrote %d archive files", len(canon))
			}
			return
		}
		if d := diffFileSets(canon, got); d != "" {
			r.Violate("outputs-differ", "%s: %s", label, d)
		}
		// the inputs must be untouched
		for i, f := range w.Files {
			b, err := os.ReadFile(rw.Real(w.Path(i)))
			if err != nil || !bytes.Equal(b, f.Data) {
				r.Violate("outputs-differ", "%s: input %q was modified by Create", label, f.Name)
			}
		}
	}
	run("canonical (lib, cwd=set dir, relative, G=1)", 0, 0, false, 1)
	nvar := 3 + t.Draw(3, "nvariants")
	var vars []string
	for i := 0; i < nvar; i++ {
		t.Begin("variant")
		cwdKind := t.Draw(3, "cwd")
		style := t.Draw(6, "style")
		cli := ParBin() != "" && t.Bool(1, 2, "cli")
		g := []int{1, 2, 3, 8}[t.Draw(4, "g")]
		leftovers = t.Pick([]int{4, 1, 1}, "leftovers")
		if dupOf >= 0 {
			dupStyle = t.Draw(6, "dup-style")
		}
		if leftovers > 0 {
			r.Probe("create-over-existing-archive")
			vars = append(vars, fmt.Sprintf("leftovers%d", leftovers))
		}
		label := fmt.Sprintf("leftovers=%d cwd=%s spelling=%s cli=%v G=%d", leftovers, []string{"set-dir", "parent", "unrelated"}[cwdKind], []string{"relative", "absolute", "./x", "d//x", "d/./x", "d/../d/x"}[style], cli, g)
		switch cwdKind {
		case 1:
			r.Probe("cwd-parent")
		case 2:
			r.Probe("cwd-unrelated")
		}
		if cli {
			r.Probe("cli")
		}
		r.Probe("spelling")
		vars = append(vars, fmt.Sprintf("cwd%d", cwdKind), fmt.Sprintf("style%d", style), fmt.Sprintf("cli=%v", cli))
		run(label, cwdKind, style, cli, g)
		t.End()
	}
	if par1Set {
		r.Probe("par1")
	}
	r.Class = fmt.Sprintf("real par1=%v nf=%d var=%v", par1Set, len(w.Files), uniqSorted(vars))
	r.Nontriv = true
}

// fileIDTwins searches names twin%07d.bin for two whose PAR2 file ids
// (MD5 of 16k-hash, length, name) share bytes 12..15, the most
// significant ones in the format's ordering.
func fileIDTwins(data []byte, n int) (string, string, bool) {
	seen := make(map[uint32]int, n)
	for i := 0; i < n; i++ {
		name := fmt.Sprintf("twin%07d.bin", i)
		id := ref.FileID(name, data)
		key := uint32(id[12]) | uint32(id[13])<<8 | uint32(id[14])<<16 | uint32(id[15])<<24
		if j, ok := seen[key]; ok {
			return fmt.Sprintf("twin%07d.bin", j), name, true
		}
		seen[key] = i
	}
	return "", "", false
}
