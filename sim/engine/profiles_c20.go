package engine

import (
	"fmt"
	"os"
	"path/filepath"
	"sort"
	"strings"
)

func init() {
	Register(&Profile{Name: "cli-exit", Prop: "C20", Weight: 10, Quick: 480, Thorough: 12000, Fn: cliExit})
	SetMeta("C20", &Meta{
		Level: "exploration",
		Rule:  "the par binary built from the current tree is run as a subprocess on a tmpfs scratch set: create (checked: status 0, set exists, verify says clean), then a state from {intact, repairable, unrepairable, no parity left, damaged index, missing index} is produced by whole-file deletion/garbage (so needed/possible is decided by the reference model without ambiguity), then verify and repair with command abbreviations, -g/-s/-c/-a/-doublecheck flags, invoked from the set's directory, its parent or an unrelated directory with relative or absolute spellings; plus usage errors. Oracle: the expected-status table of DESIGN.md section 14; status 0 implies the operation's postcondition on disk; a Go panic trace on stderr is a violation whatever the status. Non-trivial: verify and repair were both run in a non-intact state or a usage error was exercised; distinct by (format, state, invocation class, flags, statuses).",
		Assumptions: []string{
			"states are built from unambiguous damage (whole files deleted or replaced by garbage, recovery files intact or deleted); PAR1 singular combinations are excluded from the repair-status oracle",
			"real file system (tmpfs), real binary; no in-operation I/O faults here",
		},
		ProbesWant: []string{"state:intact", "state:repairable", "state:unrepairable", "state:no-parity", "state:damaged-index", "state:missing-index", "usage-error", "par1", "par2", "abbreviation", "cwd-parent", "cwd-unrelated", "doublecheck", "verify-all"},
	})
}

func hasPanicTrace(s string) bool {
	return strings.Contains(s, "panic:") || strings.Contains(s, "goroutine 1 [") || strings.Contains(s, "runtime error")
}

func cliExit(r *Run) {
	t := r.T
	if ParBin() == "" {
		r.Count("infra:no-par-binary")
		return
	}
	par1Set := t.Bool(1, 2, "par1")
	w := GenWorld(r, GenOpts{Par1: par1Set, MaxFiles: 4, MaxTotal: 4 << 10, MaxR: 6, SmallOnly: true, RandomOnly: true, SliceSizes: []int{4, 8, 16, 64, 100}})
	if par1Set {
		r.Probe("par1")
	} else {
		r.Probe("par2")
	}
	forceAppend0 := false
	switchDone := false
	if t.Bool(1, 8, "file-at-16k") {
		// one file right at the 16 KiB boundary of the file hashes
		data := expandContent(ckRandom, t.Draw64(0, "k16-seed"), 16383+t.Draw(3, "k16-d"), 4)
		w.Files[0].Data = data
		w.Disk.Put(w.Path(0), data)
		r.Probe("file-at-16KiB")
		forceAppend0 = t.Bool(1, 2, "append-to-16k-file")
	}
	twin := -1
	if !par1Set && len(w.Files) >= 2 && t.Bool(1, 8, "content-twin") {
		// two protected files with the same content (a copy kept under a
		// second name): the slices of one survive in the other
		twin = 1 + t.Draw(len(w.Files)-1, "twin")
		src := t.Draw(twin, "twin-of")
		if len(w.Files[src].Data) > 0 {
			w.Files[twin].Data = append([]byte(nil), w.Files[src].Data...)
			w.Disk.Put(w.Path(twin), w.Files[twin].Data)
			r.Probe("content-twin")
		} else {
			twin = -1
		}
	}
	longGap := false
	if par1Set && t.Bool(1, 10, "many-volumes") {
		w.R = 18 + t.Draw(12, "nvolumes")
		longGap = true
		r.Probe("par1-many-volumes")
		if t.Bool(1, 2, "fill-the-set") {
			// data files and volumes together fill the 256 places a PAR1
			// set has (here: 227-238 tiny files)
			for i := len(w.Files); i+w.R < 256; i++ {
				f := w.Files[0]
				f.Name = fmt.Sprintf("m%03d.dat", i)
				f.Data = expandContent(ckRandom, t.Draw64(0, "fill-seed"), 1+t.Draw(9, "fill-len"), 4)
				w.Files = append(w.Files, f)
				w.Disk.Put(w.Path(i), f.Data)
			}
			r.Probe("par1-256-places-filled")
		}
	}
	rw := r.Materialise(w)
	os.MkdirAll(rw.Real("/elsewhere"), 0755)
	setDir := rw.Real(w.Dir)
	ext := ".par2"
	if par1Set {
		ext = ".par"
	}
	// invocation: cwd and spelling
	inv := func() (cwd string, spell func(rel string) string, class string) {
		switch t.Draw(4, "invocation") {
		case 0:
			return setDir, func(rel string) string { return rel }, "set-dir/relative"
		case 1:
			r.Probe("cwd-parent")
			return filepath.Dir(setDir), func(rel string) string { return filepath.Base(setDir) + "/" + rel }, "parent/relative"
		case 2:
			r.Probe("cwd-unrelated")
			return rw.Real("/elsewhere"), func(rel string) string { return filepath.Join(setDir, rel) }, "unrelated/absolute"
		}
		return setDir, func(rel string) string { return "./" + rel }, "set-dir/dot-relative"
	}
	check := func(res CLIResult, what string, want func(int) bool, wantDesc string, state string) {
		out := strings.Replace(res.Stdout+res.Stderr, rw.Root, "", -1)
		if res.Status == -2 {
			r.Violate("hang", "%s in state %s did not terminate within 60 s", what, state)
		}
		if hasPanicTrace(res.Stderr) || hasPanicTrace(res.Stdout) {
			r.Violate("exit-status", "%s in state %s: par crashed with a Go panic (status %d): %s", what, state, res.Status, lastLines(out, 8))
		}
		if !want(res.Status) {
			r.Violate("exit-status", "%s in state %s: exit status %d, want %s; output: %s", what, state, res.Status, wantDesc, lastLines2(out, 4))
		}
	}
	is := func(vals ...int) func(int) bool {
		return func(s int) bool {
			for _, v := range vals {
				if s == v {
					return true
				}
			}
			return false
		}
	}
	notIn := func(vals ...int) func(int) bool {
		return func(s int) bool {
			if s < 0 {
				return false
			}
			for _, v := range vals {
				if s == v {
					return false
				}
			}
			return true
		}
	}

	// ---- usage errors (sometimes) ----
	if t.Bool(1, 4, "usage") {
		r.Probe("usage-error")
		cases := [][]string{{}, {"frobnicate"}, {"create"}, {"create", "x" + ext}, {"verify"}, {"repair"}, {"-nosuchflag", "verify", "x" + ext}, {"verify", "-nosuchflag", "x" + ext}, {"c"}, {"v"}, {"r"}, {"create", "-s", "notanumber", "x" + ext, "f"}}
		args := cases[t.Draw(len(cases), "usage-case")]
		res := r.RunPar(setDir, args...)
		check(res, fmt.Sprintf("par %v", args), is(3), "3 (usage error)", "any")
	}

	// ---- create ----
	cwd, sp, invClass := inv()
	createCmd := []string{"create", "c", "CREATE"}[t.Pick([]int{3, 2, 1}, "create-cmd")]
	if createCmd != "create" {
		r.Probe("abbreviation")
	}
	args := []string{}
	if t.Bool(1, 2, "g-flag") {
		args = append(args, "-g", fmt.Sprint(1+t.Draw(8, "g")))
	}
	args = append(args, createCmd)
	if !par1Set {
		args = append(args, "-s", fmt.Sprint(w.S))
	}
	args = append(args, "-c", fmt.Sprint(w.R), sp(w.Base+ext))
	for _, f := range w.Files {
		args = append(args, sp(f.Name))
	}
	cre := r.RunPar(cwd, args...)
	check(cre, "par create", is(0), "0", "fresh")
	rw.Pull()
	w.Created = map[string][]byte{}
	for name, b := range rw.archiveFiles() {
		w.Created[filepath.Join(w.Dir, name)] = b
	}
	if len(w.Created) < 2 || w.Created[w.Index] == nil {
		r.Violate("exit-status", "par create exited 0 but the set does not exist (%d archive files, index present: %v)", len(w.Created), w.Created[w.Index] != nil)
	}
	// invalid option values are failures of some kind: never status 0,
	// never a crash, and nothing is written
	if t.Bool(1, 6, "bad-option-value") {
		cases := [][]string{{"create", "-s", "6", "bad" + ext, w.Files[0].Name}, {"create", "-s", "-4", "bad" + ext, w.Files[0].Name}, {"-g", "-3", "create", "bad" + ext, w.Files[0].Name}, {"create", "-c", "-1", "bad" + ext, w.Files[0].Name}, {"create", "-c", "100000", "bad" + ext, w.Files[0].Name}}
		k := t.Draw(len(cases), "bad-option")
		if par1Set && k < 2 {
			k = 3
		}
		args := cases[k]
		res := r.RunPar(setDir, args...)
		out := strings.Replace(res.Stdout+res.Stderr, rw.Root, "", -1)
		if hasPanicTrace(res.Stderr) || hasPanicTrace(res.Stdout) {
			r.Violate("exit-status", "par %v crashed with a Go panic (status %d): %s", args, res.Status, lastLines(out, 6))
		}
		// negative/zero counts fall back to defaults by documented behaviour, so status 0 is allowed when a set was really written
		if res.Status == 0 {
			if _, err := os.Stat(filepath.Join(setDir, "bad"+ext)); err != nil {
				r.Violate("exit-status", "par %v exited 0 but wrote no set", args)
			}
		}
		for _, n := range []string{"bad.par2", "bad.par"} {
			os.Remove(filepath.Join(setDir, n))
		}
		ents, _ := os.ReadDir(setDir)
		for _, e := range ents {
			if strings.HasPrefix(e.Name(), "bad.") {
				os.Remove(filepath.Join(setDir, e.Name()))
			}
		}
		r.Probe("bad-option-value")
	}
	// Create that fails part-way: the first recovery file cannot be
	// written because a directory of that name is in the way
	if t.Bool(1, 8, "create-fails-midway") {
		// which recovery files this create writes is learnt from a
		// fault-free run of the same command (the naming scheme is the
		// implementation's business), then one of them is obstructed
		clean := func() {
			ents, _ := os.ReadDir(setDir)
			for _, e := range ents {
				if strings.HasPrefix(e.Name(), "mid.") {
					os.RemoveAll(filepath.Join(setDir, e.Name()))
				}
			}
		}
		probe := r.RunPar(setDir, "create", "mid"+ext, w.Files[0].Name)
		var written []string
		if ents, err := os.ReadDir(setDir); err == nil && probe.Status == 0 {
			for _, e := range ents {
				if strings.HasPrefix(e.Name(), "mid.") && e.Name() != "mid"+ext {
					written = append(written, e.Name())
				}
			}
		}
		clean()
		if len(written) == 0 {
			r.Count("create-fails-midway-skipped")
		} else {
			sort.Strings(written)
			obst := written[t.Draw(len(written), "obstructed")]
			os.MkdirAll(filepath.Join(setDir, obst), 0755)
			res := r.RunPar(setDir, "create", "mid"+ext, w.Files[0].Name)
			check(res, "par create with an unwritable recovery file", notIn(0, 3), "not 0 and not 3 (write failure)", "fresh")
		}
		ents, _ := os.ReadDir(setDir)
		for _, e := range ents {
			if strings.HasPrefix(e.Name(), "mid.") {
				os.RemoveAll(filepath.Join(setDir, e.Name()))
			}
		}
		r.Probe("create-fails-midway")
	}
	// unknown extension / missing input
	if t.Bool(1, 5, "create-bad") {
		var res CLIResult
		if t.Bool(1, 2, "bad-ext") {
			res = r.RunPar(setDir, "create", "x.zip", w.Files[0].Name)
			check(res, "par create x.zip", notIn(0, 3), "not 0 and not 3 (unknown extension)", "fresh")
		} else {
			missing := []string{"no-such-input-file", "no-such-*.dat", "missing[1].txt", "what?.bin"}[t.Draw(4, "missing-name")]
			margs := []string{"create", "other" + ext, missing}
			if t.Bool(1, 2, "with-existing-input") {
				margs = []string{"create", "other" + ext, w.Files[0].Name, missing}
				if t.Bool(1, 2, "missing-first") {
					margs = []string{"create", "other" + ext, missing, w.Files[0].Name}
				}
			}
			res = r.RunPar(setDir, margs...)
			check(res, "par create with a missing input", notIn(0, 3), "not 0 and not 3 (missing input)", "fresh")
			if ents, err := os.ReadDir(setDir); err == nil {
				for _, e := range ents {
					if strings.HasPrefix(e.Name(), "other.") {
						os.Remove(filepath.Join(setDir, e.Name()))
					}
				}
			}
		}
	}

	if par1Set && !longGap && t.Bool(1, 6, "foreign-writer") {
		// the set as another PAR1 client would have written it (comment,
		// entries listed but not saved in the volume set)
		w.RewriteAsForeignPar1(r)
		rw.Sync()
	}
	// failures that are not damage: a data file that cannot be read at all
	// (a directory sits in its place), an index path that runs through a
	// regular file - "every other failure exits with another non-zero status"
	if t.Bool(1, 8, "unreadable") {
		fi := t.Draw(len(w.Files), "which-file")
		real := rw.Real(w.Path(fi))
		if t.Bool(1, 2, "index-through-file") {
			bogus := filepath.Join(w.Files[fi].Name, w.Base+ext)
			for _, cmd := range []string{"verify", "repair"} {
				res := r.RunPar(setDir, cmd, bogus)
				check(res, "par "+cmd+" with an index path that runs through a regular file", notIn(0, 3), "not 0 and not 3 (index cannot be read)", "fresh")
			}
			r.Probe("index-path-through-a-file")
		} else if orig, err := os.ReadFile(real); err == nil && os.Remove(real) == nil && os.Mkdir(real, 0755) == nil {
			for _, cmd := range []string{"verify", "repair"} {
				res := r.RunPar(setDir, cmd, w.Base+ext)
				check(res, "par "+cmd+" with a directory in place of a data file", notIn(0, 3), "not 0 and not 3 (a data file cannot be read)", "fresh")
			}
			os.Remove(real)
			os.WriteFile(real, orig, 0644)
			r.Probe("directory-in-place-of-data-file")
		}
	}

	// ---- state ----
	states := []string{"intact", "repairable", "unrepairable", "no-parity", "damaged-index", "missing-index", "recovery-subset-lost", "damaged-recovery-file"}
	state := states[t.Pick([]int{2, 5, 3, 3, 1, 1, 3, 1}, "state")]
	if longGap && t.Bool(2, 3, "long-gap-state") {
		state = "recovery-subset-lost"
	}
	if twin >= 0 && t.Bool(1, 2, "twin-lost") {
		state = "twin-lost"
	}
	recoveryDamaged := false
	r.Probe("state:" + state)
	recPaths := w.RecoveryPaths()
	capacity := w.R // recovery blocks (PAR2) / volumes (PAR1)
	sliceCount := func(i int) int {
		if par1Set {
			return 1
		}
		return (len(w.Files[i].Data) + w.S - 1) / w.S
	}
	// garble damages file i and returns how much recovery capacity the
	// damage costs (slices for PAR2, files for PAR1): a deleted or
	// replaced file costs all of it, bytes appended or prepended to a
	// PAR2 file cost nothing (every slice is still there) but the file
	// is wrong all the same
	garble := func(i int) int {
		switch t.Pick([]int{3, 3, 2, 2}, "garble-kind") {
		case 0:
			w.Disk.Remove(w.Path(i))
			r.Logf("state: %q deleted", w.Files[i].Name)
		case 1:
			g := expandContent(ckRandom, t.Draw64(0, "gseed"), len(w.Files[i].Data)+1, 4)
			w.Disk.Put(w.Path(i), g)
			r.Logf("state: %q replaced by garbage", w.Files[i].Name)
		case 2:
			cur, _ := w.Disk.Get(w.Path(i))
			g := expandContent(ckRandom, t.Draw64(0, "gseed"), 1+t.Draw(2*w.S+5, "applen"), 4)
			w.Disk.Put(w.Path(i), append(append([]byte(nil), cur...), g...))
			r.Logf("state: %d bytes appended to %q", len(g), w.Files[i].Name)
			r.Probe("damage:appended-bytes")
			if !par1Set {
				return 0
			}
		case 3:
			cur, _ := w.Disk.Get(w.Path(i))
			g := expandContent(ckRandom, t.Draw64(0, "gseed"), 1+t.Draw(2*w.S+5, "prelen"), 4)
			w.Disk.Put(w.Path(i), append(g, cur...))
			r.Logf("state: %d bytes prepended to %q", len(g), w.Files[i].Name)
			r.Probe("damage:prepended-bytes")
			if !par1Set {
				return 0
			}
		}
		return sliceCount(i)
	}
	if forceAppend0 && !indexBadState(state) {
		cur, _ := w.Disk.Get(w.Path(0))
		g := expandContent(ckRandom, t.Draw64(0, "gseed0"), 1+t.Draw(200, "applen0"), 4)
		w.Disk.Put(w.Path(0), append(append([]byte(nil), cur...), g...))
		r.Logf("state: %d bytes appended to %q", len(g), w.Files[0].Name)
		r.Probe("damage:appended-bytes")
		if par1Set {
			capacity--
		}
		if state == "intact" {
			state = "repairable"
			switchDone = true
		}
	}
	if switchDone {
		state = "appended-only"
	}
	switch state {
	case "repairable":
		// damage files while the loss stays within capacity
		used := 0
		perm := drawPerm(r, len(w.Files))
		for _, i := range perm {
			if used+sliceCount(i) <= capacity {
				used += garble(i)
				if t.Bool(1, 2, "stop") {
					break
				}
			}
		}
		if w.AllIntact() {
			state = "intact"
		}
	case "unrepairable":
		used := 0
		perm := drawPerm(r, len(w.Files))
		for _, i := range perm {
			used += garble(i)
			if used > capacity {
				break
			}
		}
		if used <= capacity {
			// cannot exceed capacity with the data alone: lose recovery files too
			for _, p := range recPaths {
				w.Disk.Remove(p)
			}
			r.Logf("state: all recovery files deleted")
			if w.AllIntact() {
				state = "intact"
			}
		}
	case "twin-lost":
		// the copy is gone, and so are some or all of the recovery files:
		// nothing needs reconstructing, every slice is still on the disk
		w.Disk.Remove(w.Path(twin))
		r.Logf("state: %q (a copy of another protected file) deleted", w.Files[twin].Name)
		for _, p := range recPaths {
			if t.Bool(2, 3, "lose-recovery-file") {
				w.Disk.Remove(p)
			}
		}
	case "no-parity":
		for _, p := range recPaths {
			w.Disk.Remove(p)
		}
		r.Logf("state: all recovery files deleted")
		if t.Bool(1, 2, "and-damage") {
			garble(t.Draw(len(w.Files), "which"))
			state = "no-parity+damaged"
		}
	case "recovery-subset-lost":
		if longGap {
			// a long run of low-numbered volumes is gone, a few high ones remain
			keep := 1 + t.Draw(3, "keep-high")
			for i, p := range recPaths {
				if i < len(recPaths)-keep {
					w.Disk.Remove(p)
				}
			}
			r.Logf("state: all but the %d highest-numbered volumes deleted", keep)
			if t.Bool(2, 3, "and-damage") {
				garble(t.Draw(len(w.Files), "which"))
				state = "recovery-subset-lost+damaged"
			}
			break
		}
		// some (not all) recovery files are gone - e.g. the first one, which
		// leaves a gap in the numbering - with the data intact or damaged
		lost := 0
		if len(recPaths) >= 3 && t.Bool(1, 3, "interior-gap") {
			// exactly one recovery file that is neither the first nor the
			// last is gone: the block numbering has a gap in the middle
			i := 1 + t.Draw(len(recPaths)-2, "which-interior")
			w.Disk.Remove(recPaths[i])
			r.Logf("state: recovery file %s deleted (interior gap)", filepath.Base(recPaths[i]))
			r.Probe("recovery-gap-in-the-middle")
			if t.Bool(2, 3, "and-damage") {
				garble(t.Draw(len(w.Files), "which"))
				state = "recovery-subset-lost+damaged"
			}
			break
		}
		for i, p := range recPaths {
			if lost < len(recPaths)-1 && (i == 0 && t.Bool(1, 2, "lose-first") || t.Bool(1, 3, "lose")) {
				w.Disk.Remove(p)
				lost++
				r.Logf("state: recovery file %s deleted", filepath.Base(p))
			}
		}
		if t.Bool(1, 2, "and-damage") {
			garble(t.Draw(len(w.Files), "which"))
			state = "recovery-subset-lost+damaged"
		}
	case "damaged-recovery-file":
		// one recovery file is damaged (cut short or a byte flipped), the
		// data intact or damaged as well; gopar may refuse the whole set
		if len(recPaths) > 0 {
			p := recPaths[t.Draw(len(recPaths), "which-rec")]
			b, _ := w.Disk.Get(p)
			b = append([]byte(nil), b...)
			if len(b) > 8 {
				if t.Bool(1, 2, "cut") {
					b = b[:len(b)/2+t.Draw(len(b)/2, "cut-at")]
				} else {
					b[t.Draw(len(b), "off")] ^= 0x10
				}
				w.Disk.Put(p, b)
				recoveryDamaged = true
				r.Logf("state: recovery file %s damaged", filepath.Base(p))
			}
		}
		if t.Bool(1, 2, "and-damage") {
			garble(t.Draw(len(w.Files), "which"))
			state = "damaged-recovery-file+damaged"
		}
	case "damaged-index":
		b, _ := w.Disk.Get(w.Index)
		b = append([]byte(nil), b...)
		switch t.Draw(3, "index-damage") {
		case 0:
			b = b[:len(b)/2]
		case 1:
			b = expandContent(ckRandom, 5, len(b), 4)
		default:
			b = []byte{}
		}
		w.Disk.Put(w.Index, b)
	case "missing-index":
		w.Disk.Remove(w.Index)
	}
	if !par1Set && !indexBadState(state) && t.Bool(1, 4, "backup-copy") {
		// a backup copy of a recovery file beside the set: the same
		// blocks stored twice do not change what is needed or possible
		for _, p := range recPaths {
			if b, ok := w.Disk.Get(p); ok {
				dst := strings.TrimSuffix(p, ".par2") + " (1).par2"
				w.Disk.Put(dst, b)
				r.Logf("state: backup copy of %s", filepath.Base(p))
				r.Probe("duplicated-recovery-file")
				if t.Bool(1, 2, "one-copy") {
					break
				}
			}
		}
	}
	rw.Sync()
	if !indexBadState(state) && t.Bool(1, 8, "symlinked-recovery-files") {
		// the recovery files live in another directory and are reachable
		// through symbolic links beside the index (annex-style layout)
		store := rw.Real("/elsewhere/store")
		os.MkdirAll(store, 0755)
		n := 0
		for _, p := range recPaths {
			real := rw.Real(p)
			if _, err := os.Lstat(real); err != nil {
				continue
			}
			target := filepath.Join(store, filepath.Base(p))
			if os.Rename(real, target) == nil && os.Symlink(target, real) == nil {
				n++
			}
		}
		if n > 0 {
			r.Logf("state: %d recovery files replaced by symbolic links", n)
			r.Probe("symlinked-recovery-files")
		}
	}

	// reference expectation
	needed := !w.AllIntact()
	possible := true
	singular := false
	if par1Set {
		tr := w.TruthPar1()
		possible = tr.UnusableData <= len(tr.PresentVolumes)
		singular = singularPar1(tr)
	} else {
		tr := w.TruthPar2()
		possible = tr.Scan.N-tr.Scan.Upper <= len(tr.IntactExps)
		if tr.Scan.Lower != tr.Scan.Upper {
			singular = true // ambiguous: hold only to "0 implies postcondition"
		} else if s, det := w.SingularPar2(tr); s || !det {
			singular = true
		}
	}
	indexBad := state == "damaged-index" || state == "missing-index"

	// ---- verify ----
	cwd, sp, invClass2 := inv()
	vcmd := []string{"verify", "v"}[t.Draw(2, "verify-cmd")]
	vargs := []string{vcmd}
	if par1Set && t.Bool(1, 2, "verify-all") {
		vargs = append(vargs, "-a")
		r.Probe("verify-all")
	}
	vargs = append(vargs, sp(w.Base+ext))
	ver := r.RunPar(cwd, vargs...)
	desc := fmt.Sprintf("%s(needed=%v possible=%v)", state, needed, possible)
	switch {
	case recoveryDamaged:
		if needed {
			check(ver, "par verify", notIn(0, 3), "not 0 and not 3 (data damaged, a recovery file damaged)", desc)
		} else {
			check(ver, "par verify", notIn(3), "not 3 (data intact, a recovery file damaged)", desc)
		}
	case indexBad:
		check(ver, "par verify", notIn(0, 3), "not 0 and not 3 (index unusable)", desc)
	case !needed:
		check(ver, "par verify", is(0), "0 (nothing to repair)", desc)
	case singular:
		check(ver, "par verify", notIn(0, 3), "non-zero (repair needed)", desc)
	case possible:
		check(ver, "par verify", is(1), "1 (repair needed and possible)", desc)
	default:
		check(ver, "par verify", is(2), "2 (repair needed but impossible)", desc)
	}
	// verify never changes anything
	treeBefore := rw.Tree()

	// ---- repair ----
	cwd, sp, _ = inv()
	rcmd := []string{"repair", "r"}[t.Draw(2, "repair-cmd")]
	rargs := []string{}
	if t.Bool(1, 3, "g-flag") {
		rargs = append(rargs, "-g", fmt.Sprint(1+t.Draw(8, "g")))
	}
	rargs = append(rargs, rcmd)
	if t.Bool(1, 2, "doublecheck") {
		rargs = append(rargs, "-doublecheck")
		r.Probe("doublecheck")
	}
	rargs = append(rargs, sp(w.Base+ext))
	rep := r.RunPar(cwd, rargs...)
	rw.Pull()
	switch {
	case recoveryDamaged:
		check(rep, "par repair", notIn(3), "not 3 (a recovery file damaged)", desc)
	case indexBad:
		check(rep, "par repair", notIn(0, 3), "not 0 and not 3 (index unusable)", desc)
	case !needed:
		check(rep, "par repair", is(0), "0 (nothing to repair)", desc)
	case singular:
		// only "0 implies restored"
	case possible:
		check(rep, "par repair", is(0), "0 (repair possible)", desc)
	default:
		check(rep, "par repair", is(2), "2 (repair needed but impossible)", desc)
	}
	if rep.Status == 0 && !indexBad && !w.AllIntact() {
		r.Violate("exit-status", "par repair in state %s exited 0 but %s", desc, w.FirstDamaged())
	}
	if rep.Status != 0 && !indexBad {
		// a failed repair leaves everything as it was or restored
		for p, b := range treeBefore {
			cur, ok := w.Disk.Get(p)
			if w.isProtectedPath(p) {
				continue
			}
			if !ok || string(cur) != string(b) {
				r.Violate("exit-status", "par repair (status %d) changed %s", rep.Status, p)
			}
		}
	}
	r.Class = fmt.Sprintf("par1=%v state=%s inv=%s/%s v=%d r=%d flags=%v", par1Set, state, invClass, invClass2, ver.Status, rep.Status, len(rargs) > 2)
	r.Nontriv = state != "intact"
}

func lastLines2(s string, n int) string {
	lines := strings.Split(strings.TrimSpace(s), "\n")
	if len(lines) > n {
		lines = lines[len(lines)-n:]
	}
	return strings.Join(lines, " | ")
}

func indexBadState(state string) bool { return state == "damaged-index" || state == "missing-index" }
