package engine

import (
	"fmt"
	"os"
	"path/filepath"
	"strings"

	"github.com/akalin/gopar/par1"
	"github.com/akalin/gopar/par2"
)

func init() {
	Register(&Profile{Name: "containment-real", Prop: "C15", Weight: 2, Quick: 700, Thorough: 15000, Fn: containmentReal})
}

// containmentReal: the hostile archives of the containment profile on a
// real tmpfs directory, through gopar's public API (production file
// layer: ioutil, rename, temp files ... whatever the implementation
// does). The archive directory sits six levels below the scratch root
// and hostile names are restricted to those that cannot leave the
// scratch root even if gopar followed them blindly (at most five "..",
// absolute names only inside the scratch root), so a defective tree
// under test cannot damage the host. The whole scratch tree outside the
// archive directory is the canary.
func containmentReal(r *Run) {
	t := r.T
	c15SweepCount(r.Tier)
	par1Set := t.Bool(1, 2, "par1")
	root := r.Scratch()
	nest := "/n1/n2/n3/n4"
	dirName := []string{"arch", "set.par2.d", "arch.v1", "old set copy"}[t.Draw(4, "archive-dir")]
	archDir := filepath.Join(root, nest, "canary", dirName)
	os.MkdirAll(archDir, 0755)
	os.MkdirAll(filepath.Join(archDir, "sub"), 0755)
	os.MkdirAll(filepath.Join(archDir, "a"), 0755)
	canary := map[string]string{
		filepath.Join(root, nest, "canary", "sibling", "file"): "sibling",
		filepath.Join(root, nest, "canary", "top.txt"):         "top",
		filepath.Join(root, nest, "canary", "x"):               "cx",
		filepath.Join(root, nest, "x"):                         "nx",
		filepath.Join(root, "abs.txt"):                         "abs",
		filepath.Join(root, nest, "canary", dirName+"2", "x"):  "sibling2",
	}
	for p, c := range canary {
		os.MkdirAll(filepath.Dir(p), 0755)
		os.WriteFile(p, []byte(c), 0644)
	}
	// names
	nf := 1 + t.Draw(3, "nfiles")
	var names []string
	for i := 0; i < nf; i++ {
		names = append(names, fmt.Sprintf("benign%d.dat", i))
	}
	pos := t.Draw(nf, "pos")
	name := traversalCorpus[t.Draw(len(traversalCorpus), "name")]
	if strings.Count(name, "..") > 5 || len(name) > 100 {
		name = "../x"
	}
	if strings.HasPrefix(name, "/") {
		// an absolute name inside the scratch root
		name = filepath.Join(root, "abs.txt")
		if t.Bool(1, 2, "abs-new") {
			name = filepath.Join(root, "abs-new.txt")
		}
	}
	names[pos] = name
	var contents [][]byte
	for i := range names {
		contents = append(contents, expandContent(ckRandom, uint64(177+i), 5+3*i, 4))
	}
	shadow := 0
	if par1Set {
		shadow = t.Pick([]int{2, 1, 1, 1}, "unsaved-shadow")
	}
	// build on a simulated disk, then copy the archive files over
	saveDir := c15Dir
	c15Dir = "/canary/arch"
	d, _ := c15Disk()
	index := buildHostileShadow(d, par1Set, names, contents, shadow)
	c15Dir = saveDir
	for _, p := range d.SortedPaths() {
		if strings.HasPrefix(p, "/canary/arch/") {
			b, _ := d.Get(p)
			os.WriteFile(filepath.Join(archDir, filepath.Base(p)), b, 0644)
		}
	}
	realIndex := filepath.Join(archDir, filepath.Base(index))
	strip := func(s string) string { return strings.Replace(s, root, "", -1) }
	r.Logf("hostile archive (real disk) par1=%v dir=%q names=%q shadow=%d", par1Set, dirName, []string{strip(names[pos])}, shadow)
	snapshot := func() map[string]string {
		out := map[string]string{}
		filepath.Walk(root, func(p string, info os.FileInfo, err error) error {
			if err != nil || info.IsDir() {
				return nil
			}
			if strings.HasPrefix(p, archDir+"/") {
				return nil
			}
			b, _ := os.ReadFile(p)
			out[p] = string(b)
			return nil
		})
		return out
	}
	origWD, _ := os.Getwd()
	defer os.Chdir(origWD)
	if t.Bool(1, 3, "relative-index") {
		os.Chdir(archDir)
		realIndex = filepath.Base(realIndex)
	}
	for _, op := range []string{"verify", "repair", "repair-dc"} {
		before := snapshot()
		var err error
		pan := ""
		func() {
			defer func() {
				if x := recover(); x != nil {
					pan = strip(fmt.Sprint(x))
				}
			}()
			switch {
			case op == "verify" && par1Set:
				_, err = par1.Verify(realIndex, par1.VerifyOptions{VerifyAllData: true})
			case op == "verify":
				_, err = par2.Verify(realIndex, par2.VerifyOptions{NumGoroutines: 2})
			case par1Set:
				_, err = par1.Repair(realIndex, par1.RepairOptions{DoubleCheck: op == "repair-dc"})
			default:
				_, err = par2.Repair(realIndex, par2.RepairOptions{DoubleCheck: op == "repair-dc", NumGoroutines: 2})
			}
		}()
		r.Logf("realop %s -> err=%v", op, err != nil)
		r.Count("op:" + op + "-real")
		if pan != "" {
			r.Violate("panic", "%s panicked on the real disk: %s", op, pan)
		}
		after := snapshot()
		for p, b := range before {
			if a, ok := after[p]; !ok || a != b {
				r.Violate("canary-changed", "%s changed %s outside the archive directory (declared name %q, real disk)", op, strip(p), strip(names[pos]))
			}
		}
		for p := range after {
			if _, ok := before[p]; !ok {
				r.Violate("canary-changed", "%s created %s outside the archive directory (declared name %q, real disk)", op, strip(p), strip(names[pos]))
			}
		}
		// files inside the archive directory may only appear under it, not in sub-directories of siblings
	}
	os.Chdir(origWD)
	r.Class = fmt.Sprintf("real par1=%v dir=%s name=%s shadow=%d", par1Set, dirName, nameClass(strip(names[pos])), shadow)
	r.Nontriv = true
	r.Count("backend:real")
}
