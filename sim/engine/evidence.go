package engine

import (
	"encoding/json"
	"os"
	"path/filepath"
	"sort"
	"strings"
	"time"
)

// Meta is static evidence text per property: level, rule, assumptions,
// and the real-vs-stub table.
type Meta struct {
	Level       string
	Rule        string
	Assumptions []string
	RealVsStub  map[string]string
	ProbesWant  []string // probes a thorough run is expected to hit
}

var metas = map[string]*Meta{}

// SetMeta registers the static evidence text of a property.
func SetMeta(prop string, m *Meta) { metas[prop] = m }

var commonRealVsStub = map[string]string{
	"par1, par2 packages (encoder, decoder, packet code, CRC window)": "real",
	"rsec16 coder, gf2p16 tables and assembly kernels":                "real",
	"klauspost/reedsolomon (PAR1 maths, internal goroutines)":         "real, uncontrolled",
	"filesystem":                          "stub (MemDisk behind gopar's fileIO seam) in mem runs; real tmpfs directory in real/cli runs",
	"choice of which coder worker runs":   "stub (seeded controller) when the scheduler is armed; Go runtime otherwise",
	"cmd/par (flag parsing, exit status)": "real binary in cli runs; not run otherwise",
	"Go map iteration order":              "real, uncontrolled (sampled by repetition)",
}

func writeEvidence(cfg CheckConfig, a *agg, wall time.Duration, violations, planned int, replays []string) error {
	m := metas[cfg.Prop]
	if m == nil {
		m = &Meta{Level: "exploration", Rule: "seeded simulated runs; distinct by abstract run class"}
	}
	faults := map[string]int{}
	probes := map[string]int{}
	damage := map[string]int{}
	ops := map[string]int{}
	other := map[string]int{}
	for k, v := range a.stats {
		switch {
		case strings.HasPrefix(k, "fault:"):
			faults[k[6:]] = v
		case strings.HasPrefix(k, "probe:"):
			probes[k[6:]] = v
		case strings.HasPrefix(k, "damage:"):
			faults["media:"+k[7:]] = v
			damage[k[7:]] = v
		case strings.HasPrefix(k, "hostile:"):
			faults["archive:"+k[8:]] = v
		case strings.HasPrefix(k, "op:"):
			ops[k[3:]] = v
		default:
			other[k] = v
		}
	}
	var zeroProbes []string
	for _, p := range m.ProbesWant {
		if probes[p] == 0 {
			zeroProbes = append(zeroProbes, p)
		}
	}
	sort.Strings(zeroProbes)
	samples := make([]interface{}, 0, len(a.samples))
	for _, s := range a.samples {
		samples = append(samples, s)
	}
	if len(samples) == 0 {
		samples = append(samples, map[string]interface{}{"note": "no non-violating run with a trace was sampled", "runs": a.evals})
	}
	hours := wall.Hours()
	perHour := 0
	if hours > 0 {
		perHour = int(float64(a.evals) / hours)
	}
	cov := map[string]interface{}{
		"evaluations":          a.evals,
		"distinct_nontrivial":  len(a.nontriv),
		"distinct_classes":     len(a.classes),
		"rule":                 m.Rule,
		"samples":              samples,
		"planned_runs":         planned,
		"cut_short_by_budget":  a.cut,
		"runs_per_hour":        perHour,
		"seeds":                map[string]interface{}{"base": cfg.Base, "first_run_seed": a.firstSeed, "last_run_seed": a.lastSeed, "derivation": "run seed = splitmix(base XOR fnv(profile), local index)"},
		"sim_events":           a.events,
		"sim_time_note":        "gopar has no clocks or timers; simulated time is logical: the global event sequence (I/O calls + scheduler releases + world operations + oracle observations)",
		"tape_draws":           a.draws,
		"fault_counts":         faults,
		"probes":               probes,
		"probes_stuck_at_zero": zeroProbes,
		"operations":           ops,
		"counters":             other,
		"runs_per_profile":     a.perProfile,
		"distinct_schedules":   len(a.schedHash),
		"real_vs_stub":         realVsStub(m),
		"known_findings_hit":   a.known,
		"replays":              replays,
		"workers":              cfg.Procs,
		"sum_run_wall_s":       float64(a.wallUS) / 1e6,
		"slowest_runs":         a.slowest,
	}
	sweepPlanned := 0
	for _, p := range ProfilesFor(cfg.Prop) {
		if p.Sweep != nil {
			sweepPlanned += p.Sweep(cfg.Tier)
		}
	}
	if sweepPlanned > 0 {
		cov["sweep_cases_planned"] = sweepPlanned
		cov["sweep_cases_run"] = a.sweepRun
		cov["sweep_note"] = "the deterministic sweep is enumerated completely when sweep_cases_run == sweep_cases_planned; the seeded part of the batch is sampling"
		cov["exhaustive"] = false
	}
	if zeroProbes == nil {
		zeroProbes = []string{}
	}
	cov["probes_stuck_at_zero"] = zeroProbes
	if replays == nil {
		cov["replays"] = []string{}
	}
	if len(a.states) > 0 {
		cov["states"] = len(a.states)
		cov["transitions"] = len(a.trans)
	}
	if cfg.Tier == "thorough" && len(zeroProbes) > 0 {
		cov["warning"] = "probes stuck at zero in a thorough run: " + strings.Join(zeroProbes, ", ")
	}
	ev := map[string]interface{}{
		"property_id": cfg.Prop,
		"tier":        cfg.Tier,
		"seed":        cfg.Base,
		"level":       m.Level,
		"coverage":    cov,
		"assumptions": m.Assumptions,
		"wall_s":      wall.Seconds(),
		"violations":  violations,
	}
	dir := filepath.Join(cfg.Out, "evidence")
	if err := os.MkdirAll(dir, 0755); err != nil {
		return err
	}
	b, err := json.MarshalIndent(ev, "", " ")
	if err != nil {
		return err
	}
	return os.WriteFile(filepath.Join(dir, cfg.Prop+".json"), b, 0644)
}

func realVsStub(m *Meta) map[string]string {
	out := map[string]string{}
	for k, v := range commonRealVsStub {
		out[k] = v
	}
	for k, v := range m.RealVsStub {
		out[k] = v
	}
	return out
}
