package engine

import (
	"fmt"
	"os"
	"path/filepath"

	"github.com/akalin/gopar/par1"
	"github.com/akalin/gopar/par2"
)

func init() {
	Register(&Profile{Name: "histories-real", Prop: "C14", Weight: 2, Quick: 1200, Thorough: 25000, Fn: historiesReal})
}

// historiesReal: the random walk of the histories profile through
// gopar's public API on a tmpfs directory (production file layer), with
// the same history oracles evaluated on directory snapshots.
func historiesReal(r *Run) {
	t := r.T
	par1Set := t.Bool(1, 3, "par1")
	w := GenWorld(r, GenOpts{Par1: par1Set, MaxFiles: 4, SmallOnly: true, MaxR: 4})
	if w.G == 0 {
		w.G = 2
	}
	rw := r.Materialise(w)
	index := rw.Real(w.Index)
	var paths []string
	for i := range w.Files {
		paths = append(paths, rw.Real(w.Path(i)))
	}
	origWD, _ := os.Getwd()
	defer os.Chdir(origWD)
	cre := r.realOp(rw, "create-real", func(res *OpResult) {
		if par1Set {
			res.Err = par1.Create(index, paths, par1.CreateOptions{NumParityFiles: w.R})
		} else {
			res.Err = par2.Create(index, paths, par2.CreateOptions{SliceByteCount: w.S, NumParityShards: w.R, NumGoroutines: w.G})
		}
	})
	r.noPanic(cre)
	if cre.Err != nil {
		r.Violate("create-failed", "Create failed on a valid set (real disk): %v", cre.Err)
	}
	rw.Pull()
	w.Created = map[string][]byte{}
	for name, b := range rw.archiveFiles() {
		w.Created[filepath.Join(w.Dir, name)] = b
	}
	verify := func() *OpResult {
		return r.realOp(rw, "verify-real", func(res *OpResult) {
			if par1Set {
				vr, err := par1.Verify(index, par1.VerifyOptions{})
				res.Err = err
				if err == nil {
					res.HasRes, res.Counts1 = true, vr.FileCounts
				}
			} else {
				vr, err := par2.Verify(index, par2.VerifyOptions{NumGoroutines: w.G})
				res.Err = err
				if err == nil {
					res.HasRes, res.Counts = true, vr.ShardCounts
				}
			}
		})
	}
	repair := func(dc bool) *OpResult {
		res := r.realOp(rw, fmt.Sprintf("repair-real dc=%v", dc), func(res *OpResult) {
			if par1Set {
				rr, err := par1.Repair(index, par1.RepairOptions{DoubleCheck: dc})
				res.Err, res.Repaired = err, rr.RepairedPaths
			} else {
				rr, err := par2.Repair(index, par2.RepairOptions{DoubleCheck: dc, NumGoroutines: w.G})
				res.Err, res.Repaired = err, rr.RepairedPaths
			}
		})
		rw.Pull()
		return res
	}
	steps := 2 + t.Draw(7, "steps")
	var seq []string
	sawDamagedRepair := false
	for s := 0; s < steps; s++ {
		t.Begin("step")
		switch op := t.Pick([]int{5, 1, 2, 2, 2, 5}, "op"); op {
		case 0:
			seq = append(seq, "damage")
			w.DamageData(r, []string{"delete", "flip", "truncate", "prepend", "swap", "append-garbage", "append-zeros", "overwrite", "remove-bytes", "empty", "insert"})
			rw.Sync()
		case 1:
			seq = append(seq, "restore")
			w.RestoreData(r)
			rw.Sync()
		case 2:
			seq = append(seq, "delete-recovery")
			rec := w.RecoveryPaths()
			if len(rec) > 0 {
				w.Disk.Remove(rec[t.Draw(len(rec), "which")])
				rw.Sync()
			}
		case 3:
			seq = append(seq, "restore-recovery")
			rec := w.RecoveryPaths()
			if len(rec) > 0 {
				p := rec[t.Draw(len(rec), "which")]
				w.Disk.Put(p, w.Created[p])
				rw.Sync()
			}
		case 4:
			seq = append(seq, "verify")
			v := verify()
			r.noPanic(v)
			if d := snapDiff(v.Before, v.After); d != "" {
				r.Violate("verify-changed-state", "Verify changed the real directory: %s", d)
			}
		case 5:
			seq = append(seq, "repair")
			dc := t.Bool(1, 2, "dc")
			damaged := !w.AllIntact()
			if damaged {
				sawDamagedRepair = true
			}
			premise := false
			if par1Set {
				tr := w.TruthPar1()
				premise = tr.UnusableData <= len(tr.PresentVolumes) && len(tr.DamagedVolumes) == 0 && !singularPar1(tr)
			} else {
				tr := w.TruthPar2()
				premise = premiseRepair2(tr)
				if premise {
					if sing, det := w.SingularPar2(tr); sing || !det {
						premise = false
					}
				}
			}
			rep := repair(dc)
			r.noPanic(rep)
			if rep.Err != nil {
				for i := range w.Files {
					p := w.Path(i)
					cur, ok := rep.After[p]
					prev, pok := rep.Before[p]
					same := ok == pok && string(cur) == string(prev)
					orig := ok && string(cur) == string(w.Files[i].Data)
					if !same && !orig {
						r.Violate("failed-repair-worsened", "after a failed Repair (%s) %q holds neither its previous content nor the original", rep.errString(), w.Files[i].Name)
					}
				}
				if premise {
					r.Violate("repair-failed-within-capacity", "Repair failed (%s) on the real disk in a state where capacity suffices", rep.errString())
				}
				break
			}
			if !w.AllIntact() {
				r.Violate("success-not-restored", "Repair returned success on the real disk but %s", w.FirstDamaged())
			}
			v := verify()
			r.noPanic(v)
			if v.Err != nil || (par1Set && v.Counts1.RepairNeeded()) || (!par1Set && v.Counts.RepairNeeded()) {
				r.Violate("verify-after-repair-not-clean", "Verify is not clean right after a successful Repair on the real disk (%v %+v %+v)", v.Err, v.Counts, v.Counts1)
			}
			rep2 := repair(dc)
			r.noPanic(rep2)
			if d := snapDiff(rep2.Before, rep2.After); d != "" || len(rep2.Repaired) > 0 {
				r.Violate("second-repair-wrote", "a second Repair right after a successful one changed the real directory (%s) or listed %v", d, rep2.Repaired)
			}
			if rep2.Err != nil {
				r.Violate("second-repair-wrote", "a second Repair right after a successful one fails: %v", rep2.Err)
			}
			r.Probe("second-repair-checked")
		}
		t.End()
	}
	r.Class = fmt.Sprintf("real par1=%v ops=%v", par1Set, seq)
	r.Nontriv = sawDamagedRepair
	r.Count("backend:real")
}
