package engine

import (
	"fmt"
	"github.com/akalin/gopar/par2"
	"path/filepath"
	"sort"
	"strings"
	"verifsim/simdisk"

	"verifsim/ref"
)

func init() {
	Register(&Profile{Name: "durability-par2", Prop: "C01", Weight: 10, Quick: 14000, Thorough: 400000, Fn: func(r *Run) { par2Cycle(r, cycleOpts{}) }})
	Register(&Profile{Name: "durability-par2-big", Prop: "C01", Weight: 1, Quick: 120, Thorough: 3000, Fn: func(r *Run) { par2Cycle(r, cycleOpts{big: true}) }})
	Register(&Profile{Name: "verify-truth", Prop: "C03", Weight: 10, Quick: 12000, Thorough: 400000, Fn: func(r *Run) { par2Cycle(r, cycleOpts{separating: true}) }})
	Register(&Profile{Name: "write-discipline-par2", Prop: "C02", Weight: 6, Quick: 10000, Thorough: 250000, Fn: func(r *Run) { par2Cycle(r, cycleOpts{hostileRecovery: true}) }})
}

type cycleOpts struct {
	big             bool // large sets: many slices, files >= 16 KiB
	separating      bool // bias to damage that keeps slices findable while files are wrong
	hostileRecovery bool // damaged / foreign / stale recovery files, beyond-capacity states
}

var separatingKinds = []string{"insert", "prepend", "remove-bytes", "swap", "copy-over", "strip-zeros", "append-zeros", "append-garbage", "truncate", "forge-crc", "flip", "delete", "overwrite", "empty"}

// par2Cycle is the basic PAR2 workload: Create, media faults at rest,
// Verify, Repair, Verify — with the oracles of the run's property.
func par2Cycle(r *Run, o cycleOpts) {
	t := r.T
	gen := GenOpts{MaxFiles: 32}
	if o.big {
		gen.MaxTotal = 400 << 10
		if r.Thorough() {
			gen.MaxTotal = 2 << 20
		}
	}
	w := GenWorld(r, gen)
	if o.big {
		w.growBig(r)
	} else if o.hostileRecovery && w.S >= 16 && t.Bool(1, 3, "grow16k") {
		w.grow16k(r)
	}
	prop := r.Prop

	// ---- Create ----
	paths := w.FilePaths()
	if t.Bool(1, 3, "shuffle-inputs") {
		perm := drawPerm(r, len(paths))
		p2 := make([]string, len(paths))
		for i, j := range perm {
			p2[i] = paths[j]
		}
		paths = p2
	}
	if !o.big && t.Bool(1, 25, "library-defaults") {
		// let Create pick its documented defaults (slice size 2000, 3
		// recovery blocks, default goroutine count)
		w.S, w.R, w.G = par2.SliceByteCountDefault, par2.NumParityShardsDefault, 0
		w.N = 0
		for _, f := range w.Files {
			w.N += (len(f.Data) + w.S - 1) / w.S
		}
		w.UseDefaults = true
		r.Probe("library-defaults")
	}
	cre := r.Create2(w, paths, nil, r.drawSched(1, 6))
	r.noPanic(cre)
	if cre.Err != nil {
		r.Violate("create-failed", "Create failed on a valid file set: %v", cre.Err)
		return
	}
	w.RecordCreated(r, cre)
	if w.UseDefaults {
		// what the defaults were is read off the set that was written
		if info := ref.ReadIndex(w.Created[w.Index]); info.SliceSize > 0 && info.SliceSize != w.S {
			w.S = info.SliceSize
			w.N = 0
			for _, f := range w.Files {
				w.N += (len(f.Data) + w.S - 1) / w.S
			}
		}
		n := 0
		for _, e := range w.Exps {
			n += len(e)
		}
		if n > 0 {
			w.R = n
		}
	}
	if prop == "C02" {
		r.oracleWrites(w, cre, "create")
	}
	if len(w.Created) < 2 || w.Created[w.Index] == nil {
		r.Violate("create-failed", "Create returned success but wrote %d files (index present: %v)", len(w.Created), w.Created[w.Index] != nil)
		return
	}
	var allExps []int
	for _, e := range w.Exps {
		allExps = append(allExps, e...)
	}
	sort.Ints(allExps)
	if prop == "C03" || prop == "C01" {
		// fresh-set sanity from the reference reader (not a C05 claim):
		// the blocks Create was asked for must be readable back
		if len(allExps) != w.R {
			r.Count("infra:reference-reader-disagrees-on-fresh-set")
		}
	}

	if !o.big && !w.UseDefaults && t.Bool(1, 12, "foreign-writer") {
		// the same set as another PAR2 client would have written it
		w.RewriteAsForeignPar2(r)
	}

	// ---- optional update-and-re-protect ----
	// a file is updated in place beyond its first 16 KiB (same name and
	// length, so the same file id and recovery set id), the old archive
	// files are removed and the set is created again, in the same process
	if !o.big && t.Bool(1, 6, "update-and-reprotect") {
		for i, f := range w.Files {
			if len(f.Data) <= 16384+8 {
				continue
			}
			// a Verify of the old generation first (loads its checksums)
			v0 := r.Verify2(w, w.Index, w.G, nil, SchedSpec{})
			r.noPanic(v0)
			d := append([]byte(nil), f.Data...)
			g := prng{s: t.Draw64(0, "update-seed")}
			for k := 0; k < 1+int(g.next()%8); k++ {
				d[16384+int(g.next()%uint64(len(d)-16384))] ^= byte(1 + g.next()%255)
			}
			w.Files[i].Data = d
			w.Disk.Put(w.Path(i), d)
			if t.Bool(1, 2, "remove-old-archive") {
				for p := range w.Created {
					w.Disk.Remove(p)
				}
			} else {
				// Create runs over the archive files of the old generation
				r.Probe("recreated-over-existing-set")
			}
			cre2 := r.Create2(w, paths, nil, SchedSpec{})
			r.noPanic(cre2)
			if cre2.Err != nil {
				r.Violate("create-failed", "re-Create after an in-place update failed: %v", cre2.Err)
			}
			w.RecordRecreated(r, cre2, w.Created)
			r.Probe("updated-and-reprotected-same-setid")
			break
		}
	}

	// ---- optional clean verify ----
	if t.Bool(1, 4, "verify-clean") {
		tr := w.TruthPar2()
		v := r.Verify2(w, w.Index, w.G, nil, SchedSpec{})
		r.noPanic(v)
		if prop == "C03" {
			if v.Err != nil {
				r.Violate("verify-error-on-clean-set", "Verify failed on an untouched set: %v", v.Err)
			}
			r.oracleVerify2(w, v, tr, true, true)
			if v.HasRes && v.Counts.RepairNeeded() {
				r.Violate("usable-below-lower", "Verify of an untouched set reports %d unusable slices", v.Counts.UnusableDataShardCount)
			}
		}
		if prop == "C02" {
			r.oracleWrites(w, v, "verify")
		}
	}

	// ---- media faults at rest ----
	var kinds []string
	nd := 1 + t.Pick([]int{5, 3, 1, 1}, "ndamage")
	if t.Bool(1, 12, "no-damage") {
		nd = 0
	}
	enabled := []string(nil)
	if o.separating {
		enabled = separatingKinds[:1+t.Draw(len(separatingKinds), "enabled-kinds")]
		if len(enabled) < 4 {
			enabled = separatingKinds[:4+t.Draw(6, "enabled-kinds2")]
		}
	}
	for i := 0; i < nd; i++ {
		kinds = append(kinds, w.DamageData(r, enabled))
	}
	if w.SharedLate && t.Bool(1, 2, "lose-the-big-file") {
		w.Disk.Remove(w.Path(0))
		kinds = append(kinds, "delete")
		r.Logf("damage delete %q", w.Files[0].Name)
	}
	recDeleted := 0
	if t.Bool(1, 2, "lose-recovery") {
		recDeleted = w.DeleteRecovery(r)
	}
	if t.Bool(1, 8, "backup-copy") {
		// a user's backup copy of a recovery file beside the set: the
		// same blocks are stored twice, the inventory of distinct blocks
		// is unchanged
		rec := w.RecoveryPaths()
		if len(rec) > 0 {
			src := rec[t.Draw(len(rec), "which")]
			if b, ok := w.Disk.Get(src); ok {
				dst := strings.TrimSuffix(src, ".par2") + []string{".backup", " (copy)", ".1"}[t.Draw(3, "suffix")] + ".par2"
				w.Disk.Put(dst, b)
				w.Created[dst] = b
				w.Exps[dst] = w.Exps[src]
				r.Logf("backup copy %s of %s", filepath.Base(dst), filepath.Base(src))
				r.Probe("duplicated-recovery-file")
			}
		}
	}
	if t.Bool(1, 10, "foreign-prefix") {
		// a recovery file that also carries another recovery set's packets
		// in front of ours (two volumes concatenated): conformant, and all
		// of our blocks in it are intact
		rec := w.RecoveryPaths()
		var present []string
		for _, p := range rec {
			if _, ok := w.Disk.Get(p); ok {
				present = append(present, p)
			}
		}
		if len(present) > 0 {
			p := present[t.Draw(len(present), "which")]
			b, _ := w.Disk.Get(p)
			other := ref.BuildSet([]ref.Protected{{Name: "other.bin", Data: expandContent(ckRandom, t.Draw64(0, "oseed"), 2*w.S+3, w.S)}}, w.S, []int{0, 1}, "other")
			var nb []byte
			nb = append(nb, other.Creator...)
			for _, pk := range other.CriticalPackets() {
				nb = append(nb, pk...)
			}
			nb = append(nb, other.Recovery[0]...)
			nb = append(nb, b...)
			if t.Bool(1, 2, "foreign-suffix-too") {
				nb = append(nb, other.Recovery[1]...)
			}
			w.Disk.Put(p, nb)
			w.Created[p] = nb
			r.Logf("foreign set's packets concatenated in front of %s", filepath.Base(p))
			r.Probe("foreign-packets-first-in-volume")
		}
	}
	conflicting := false
	if !o.hostileRecovery && t.Bool(1, 12, "conflicting-single-block") {
		// a small extra volume file holding one recovery block whose
		// exponent also exists in a genuine file, with different content
		// (say, a left-over of an earlier generation of the set): the
		// inventory of distinct intact blocks is unchanged
		rec := w.RecoveryPaths()
		var present []string
		for _, p := range rec {
			if _, ok := w.Disk.Get(p); ok {
				present = append(present, p)
			}
		}
		if len(present) > 0 {
			src := present[t.Draw(len(present), "which")]
			b, _ := w.Disk.Get(src)
			pk, _ := ref.ParsePackets(b)
			var recp []ref.Packet
			var creator []byte
			for _, x := range pk {
				if x.Type == ref.TypeRecvSlic {
					recp = append(recp, x)
				}
				if x.Type == ref.TypeCreator {
					creator = b[x.Offset : x.Offset+x.Length]
				}
			}
			if len(recp) > 0 && creator != nil {
				x := recp[t.Draw(len(recp), "packet")]
				body := append([]byte(nil), x.Body...)
				if len(body) > 5 {
					body[4+t.Draw(len(body)-4, "off")] ^= byte(1 + t.Draw(255, "xor"))
					nb := append(append([]byte(nil), creator...), ref.MakePacket(x.SetID, x.Type, body)...)
					name := []string{".0old.par2", ".zold.par2", ".vol00-old.par2"}[t.Draw(3, "name")]
					w.Disk.Put(strings.TrimSuffix(w.Index, ".par2")+name, nb)
					conflicting = true
					r.Logf("conflicting single-block volume %s (same exponent as a genuine block, different content)", w.Base+name)
					r.Probe("conflicting-single-block-volume")
				}
			}
		}
	}
	_ = conflicting
	hostile := ""
	if o.hostileRecovery && len(w.Files[0].Data) > 16384+2*w.S && len(w.Files) > 1 && t.Bool(1, 3, "late-failure") {
		// a Repair that gets some files right and then fails on a later
		// one: one file only needs reassembling (junk appended), another
		// lost a slice beyond its first 16 KiB, and the recovery block
		// that will be used for it is format-valid but wrong
		other := 1 + t.Draw(len(w.Files)-1, "reassemble-which")
		cur, ok := w.Disk.Get(w.Path(other))
		if ok {
			w.Disk.Put(w.Path(other), append(append([]byte(nil), cur...), 0xAA, 0xBB, 0xCC))
		}
		big := append([]byte(nil), w.Files[0].Data...)
		k := 16384/w.S + 1 + t.Draw((len(big)-16384)/w.S-1, "late-slice")
		for i := k * w.S; i < (k+1)*w.S && i < len(big); i++ {
			big[i] ^= 0x5c
		}
		w.Disk.Put(w.Path(0), big)
		hostile = "forged-lowest-block"
		if !w.forgeLowestBlock(r) {
			hostile = "none"
		}
		r.Probe("late-failure-scenario")
		kinds = append(kinds, "late-failure")
	} else if o.hostileRecovery && len(w.Files[0].Data) > 16384 && t.Bool(1, 4, "older-generation-volumes") {
		// the index is today's, the volume files are those of an earlier
		// generation of the same set id; the file that differs is lost or
		// damaged after its first 16 KiB - whatever Repair reconstructs
		// from those blocks is not what the index protects
		hostile = w.hostileRecoveryKind(r, "stale-generation-all")
		if t.Bool(1, 2, "lose-the-file") {
			w.Disk.Remove(w.Path(0))
			kinds = append(kinds, "delete")
		} else {
			cur := append([]byte(nil), w.Files[0].Data...)
			cur[16384+t.Draw(len(cur)-16384, "late-offset")] ^= byte(1 + t.Draw(255, "xor"))
			w.Disk.Put(w.Path(0), cur)
			kinds = append(kinds, "flip")
		}
	} else if o.hostileRecovery && t.Bool(1, 2, "hostile-recovery") {
		hostile = w.hostileRecovery(r)
	} else if prop == "C03" && t.Bool(1, 6, "damaged-recovery-file") {
		// plain damage to a recovery file (no wrong-but-valid content):
		// Verify may refuse such a set, but a result it gives must still
		// be complete
		hostile = w.hostileRecoveryKind(r, []string{"flip-in-recovery", "truncate-recovery", "length-field-grows", "length-field-grows"}[t.Draw(4, "damage-kind")])
	}
	plainDamage := map[string]bool{"": true, "none": true, "flip-in-recovery": true, "truncate-recovery": true, "empty-recovery": true, "garbage-named-like-volume": true, "length-field-grows": true}
	tr := w.TruthPar2()
	premise := premiseRepair2(tr)
	if len(tr.IntactExps) > 0 && nonContiguous(tr.IntactExps) {
		r.Probe("non-contiguous-exponents")
	}
	if tr.Scan.Lower != tr.Scan.Upper {
		r.Probe("lower<upper")
	}
	r.Logf("truth N=%d lower=%d upper=%d intactExps=%v recoveryDamaged=%v premise=%v", tr.Scan.N, tr.Scan.Lower, tr.Scan.Upper, tr.IntactExps, tr.RecoveryDamaged, premise)

	// the index path as the caller spells it: absolute, or relative to
	// the (virtual) working directory
	index := w.Index
	if w.Disk.Cwd == w.Dir && t.Bool(1, 3, "relative-index") {
		index = filepath.Base(w.Index)
		if t.Bool(1, 2, "dot-slash") {
			index = "./" + index
		}
		r.Probe("relative-index-path")
	} else if w.Disk.Cwd == filepath.Dir(w.Dir) && t.Bool(1, 2, "relative-index-from-parent") {
		index = filepath.Base(w.Dir) + "/" + filepath.Base(w.Index)
		r.Probe("relative-index-path")
	}
	// ---- Verify ----
	gv := []int{1, 2, 3, 4, 7, 16, 64, 0}[t.Draw(8, "g-verify")]
	v := r.Verify2(w, index, gv, nil, SchedSpec{})
	r.noPanic(v)
	if prop == "C03" {
		r.oracleVerify2(w, v, tr, plainDamage[hostile], true)
		if v.Err != nil && hostile == "" {
			r.Violate("verify-error", "Verify failed although index and recovery files are undamaged: %v", v.Err)
		}
	}
	if prop == "C02" {
		r.oracleWrites(w, v, "verify")
	}

	// ---- Repair ----
	gr := []int{1, 2, 3, 4, 7, 16, 64, 0}[t.Draw(8, "g-repair")]
	dc := t.Bool(1, 2, "doublecheck")
	needWork := !w.AllIntact()
	var repPlan []simdisk.Fault
	if prop == "C02" && needWork && t.Bool(1, 4, "repair-write-fault") {
		// one of Repair's writes fails (disk full, torn): the write
		// discipline is stated "whether Repair succeeds or fails" - what is
		// written before and after the failure stays original and listed
		kind := []simdisk.Kind{simdisk.WriteENOSPC, simdisk.WriteTorn, simdisk.WriteTruncErr}[t.Draw(3, "fault-kind")]
		repPlan = []simdisk.Fault{{NthWrite: 1 + t.Draw(3, "fault-write"), Kind: kind, KeepPermille: t.Draw(1001, "keep"), ErrStyle: t.Draw(5, "error-style")}}
		r.Probe("repair-with-write-fault")
	}
	rep := r.Repair2(w, index, gr, dc, repPlan, r.drawSched(1, 6))
	r.noPanic(rep)
	outcome := "repaired"
	if rep.Err != nil {
		outcome = "failed"
	}
	switch prop {
	case "C01":
		r.oracleRepair2(w, rep, tr)
	case "C02":
		r.oracleWrites(w, rep, "repair")
	case "C03":
		if rep.Err == nil && !w.AllIntact() {
			// not C03's clause, but keep the run honest in the trace
			r.Count("note:repair-success-not-restored")
		}
	}
	if rep.Err == nil && needWork {
		if used := tr.Scan.N - tr.Scan.Upper; used > 0 {
			r.Probe("slices-reconstructed")
		} else {
			r.Probe("relocated-slices-only")
		}
	}

	// ---- Verify after repair ----
	if t.Bool(1, 2, "verify-after") {
		tr2 := w.TruthPar2()
		v2 := r.Verify2(w, index, gv, nil, SchedSpec{})
		r.noPanic(v2)
		if prop == "C03" {
			r.oracleVerify2(w, v2, tr2, plainDamage[hostile], true)
		}
		if prop == "C02" {
			r.oracleWrites(w, v2, "verify")
		}
	}

	// ---- classification for evidence ----
	sort.Strings(kinds)
	r.Class = fmt.Sprintf("S=%s N=%s R=%s dmg=%s recdel=%v hostile=%s premise=%v out=%s", sClass(w.S), sizeClass(w.N), sizeClass(w.R), strings.Join(uniq(kinds), "+"), recDeleted > 0, hostile, premise, outcome)
	switch prop {
	case "C01":
		r.Nontriv = premise && needWork
	case "C03":
		r.Nontriv = needWork && v.HasRes
	case "C02":
		r.Nontriv = needWork || hostile != ""
	}
	if premise {
		r.Count("premise:true")
	} else {
		r.Count("premise:false")
	}
}

func uniq(s []string) []string {
	var out []string
	for i, x := range s {
		if i == 0 || x != s[i-1] {
			out = append(out, x)
		}
	}
	return out
}

func nonContiguous(exps []int) bool {
	for i := 1; i < len(exps); i++ {
		if exps[i] != exps[i-1]+1 {
			return true
		}
	}
	return len(exps) > 0 && exps[0] != 0
}

func drawPerm(r *Run, n int) []int {
	p := make([]int, n)
	for i := range p {
		p[i] = i
	}
	for i := n - 1; i > 0; i-- {
		j := r.T.Draw(i+1, "perm")
		p[i], p[j] = p[j], p[i]
	}
	return p
}

// growBig replaces the first file by a large one so that the set has
// many slices / crosses the 16 KiB boundary.
func (w *World) growBig(r *Run) {
	t := r.T
	t.Begin("big")
	defer t.End()
	target := 300 + t.Draw(1200, "slices")
	if r.Thorough() && t.Bool(1, 4, "huge") {
		target = 8000 + t.Draw(24000, "slices-huge")
	}
	size := target*w.S - t.Draw(w.S, "tail")
	max := 400 << 10
	if r.Thorough() {
		max = 2 << 20
	}
	if size > max {
		size = max - t.Draw(w.S, "tail2")
	}
	maxSlices := 4000
	if r.Thorough() {
		maxSlices = 30000
	}
	if size > maxSlices*w.S {
		size = maxSlices*w.S - t.Draw(w.S, "tail3")
	}
	if size < 16385 {
		size = 16385 + t.Draw(5000, "min16k")
	}
	data := expandContent(ckRandom, t.Draw64(0, "cseed"), size, w.S)
	w.N += (size+w.S-1)/w.S - (len(w.Files[0].Data)+w.S-1)/w.S
	w.Files[0].Data = data
	w.Disk.Put(w.Path(0), data)
	// keep the total slice count within the format's limit
	for w.N > 32768 {
		last := len(w.Files) - 1
		if last == 0 {
			break
		}
		w.N -= (len(w.Files[last].Data) + w.S - 1) / w.S
		w.Disk.Remove(w.Path(last))
		w.Files = w.Files[:last]
	}
	if t.Bool(1, 5, "at-the-slice-limit") {
		// exactly as many slices as the format allows (32768), or one less
		w.S = []int{4, 8, 16, 32}[t.Draw(4, "limit-S")]
		others := 0
		for i := 1; i < len(w.Files); i++ {
			// (the other files were generated for another slice size: with
			// tiny slices, low-entropy content would mean thousands of
			// identical slices, which gopar credits quadratically)
			if len(w.Files[i].Data)/w.S > 300 {
				d := expandContent(ckRandom, t.Draw64(0, "limit-other-seed"), len(w.Files[i].Data), w.S)
				w.Files[i].Data = d
				w.Disk.Put(w.Path(i), d)
			}
			others += (len(w.Files[i].Data) + w.S - 1) / w.S
		}
		for others > 30000 && len(w.Files) > 1 {
			last := len(w.Files) - 1
			others -= (len(w.Files[last].Data) + w.S - 1) / w.S
			w.Disk.Remove(w.Path(last))
			w.Files = w.Files[:last]
		}
		want := 32768 - t.Draw(2, "one-less") - others
		data := expandContent(ckRandom, t.Draw64(0, "limit-seed"), want*w.S-t.Draw(w.S, "limit-tail"), w.S)
		w.Files[0].Data = data
		w.Disk.Put(w.Path(0), data)
		w.N = others + want
		if w.R > 8 {
			w.R = 1 + t.Draw(8, "limit-R")
		}
		r.Probe("at-the-slice-limit")
	}
	if w.N > 256 {
		r.Probe(">256-slices")
	}
	if w.N > 4096 {
		r.Probe(">4096-slices")
	}
	r.Probe("file>=16KiB")
	r.Logf("big file0=%d bytes N=%d", size, w.N)
}

func sClass(s int) string {
	switch {
	case s <= 8:
		return "<=8"
	case s <= 100:
		return "<=100"
	}
	return ">100"
}

// grow16k makes the first file larger than 16 KiB (the part of a file
// beyond that boundary is covered by the full MD5 only, not by the
// 16k hash that enters the file id and hence the recovery set id).
func (w *World) grow16k(r *Run) {
	t := r.T
	t.Begin("grow16k")
	defer t.End()
	size := 16385 + t.Draw(24000, "size")
	if t.Bool(1, 4, "ends-just-above-16k") {
		// the file ends within a slice's length of the 16 KiB mark (inside
		// the slice that straddles it, or in the next one)
		size = 16385 + t.Draw(w.S+w.S/2, "just-above")
		r.Probe("file-ends-just-above-16KiB")
	}
	data := expandContent(ckRandom, t.Draw64(0, "cseed"), size, w.S)
	w.N += (size+w.S-1)/w.S - (len(w.Files[0].Data)+w.S-1)/w.S
	w.Files[0].Data = data
	w.Disk.Put(w.Path(0), data)
	r.Probe("file>=16KiB")
	if len(w.Files) > 1 && w.S >= 256 && t.Bool(1, 2, "share-late-slices") {
		// another file repeats a few of the big file's slices that lie
		// beyond its first 16 KiB; the set has enough recovery blocks to
		// rebuild the big file as a whole
		first := 16384/w.S + 1
		n0 := len(data) / w.S
		other := 1 + t.Draw(len(w.Files)-1, "share-with")
		od := append([]byte(nil), w.Files[other].Data...)
		if n0 > first {
			w.N -= (len(od) + w.S - 1) / w.S
			for c := 0; c < 1+t.Draw(3, "n-shared"); c++ {
				k := first + t.Draw(n0-first, "late-slice")
				od = append(od[:len(od)/w.S*w.S], data[k*w.S:(k+1)*w.S]...)
			}
			od = append(od, expandContent(ckRandom, t.Draw64(0, "tail-seed"), t.Draw(w.S, "tail"), w.S)...)
			w.Files[other].Data = od
			w.Disk.Put(w.Path(other), od)
			w.N += (len(od) + w.S - 1) / w.S
			if need := (len(data) + w.S - 1) / w.S; w.R < need && t.Bool(2, 3, "enough-blocks") {
				w.R = need + t.Draw(3, "spare")
			}
			w.SharedLate = true
			r.Probe("late-slices-shared-with-another-file")
		}
	}
	r.Logf("grow16k file0=%d bytes N=%d", size, w.N)
}
