package engine

import (
	"os"
	"strings"
	"sync"
)

var (
	dictOnce   sync.Once
	dictTokens []string
)

// sourceDict returns the dictionary of short string literals of the
// source tree under test (written by the check's build step from the
// repository's current non-test files; VERIF_DICT names the file). The
// order is the file's (sorted), so a tape value selects the same token
// in every process that runs against the same tree.
func sourceDict() []string {
	dictOnce.Do(func() {
		b, err := os.ReadFile(os.Getenv("VERIF_DICT"))
		if err != nil {
			return
		}
		for _, l := range strings.Split(string(b), "\n") {
			if l = strings.TrimSpace(l); l != "" && len(dictTokens) < 400 {
				dictTokens = append(dictTokens, l)
			}
		}
	})
	return dictTokens
}
