package engine

func init() {
	SetMeta("C01", &Meta{
		Level: "exploration",
		Rule:  "seeded file sets (1-32 files; sizes around the slice size and 16384 bytes; random, low-entropy, repeated-slice, zero-tail and duplicate content; slice sizes 4..4096; 1..130 recovery blocks; goroutine options 1..64 and default) are protected with the real Create on the simulated disk (mem) or a tmpfs directory (real), hit by 0-4 media faults at rest (delete, bit flips, overwrite, insert/remove bytes, truncate, append, zero-tail changes, swap, copy-over, CRC-forged slice, emptied) and the loss of a subset of recovery files, then Verify and Repair run (double-check on/off, coder workers under a driven schedule in 1/6 of the mem runs). Oracle: when the reference model's premise holds (index and surviving recovery files byte-identical to what Create wrote; slices without a clean occurrence <= distinct surviving recovery blocks) Repair must succeed and every file must equal its original, an error being accepted only if the GF(2^16) determinant of the implied sub-matrix is zero; Repair success always implies restored files. A run is non-trivial when the premise held and Repair had work to do; distinct by (S class, N class, R class, damage kinds, recovery loss, premise, outcome).",
		Assumptions: []string{
			"protected names never look like archive members of the same base, are not prefixes of one another, and damage never removes directories",
			"recovery files are lost whole in this profile (damaged-but-present recovery files are C13's subject)",
			"the slice-occurrence scanner (Rabin-Karp + bytewise confirmation) and the shift-xor GF(2^16) arithmetic of the reference model are trusted",
		},
		ProbesWant: []string{"file>=16KiB", ">256-slices", "non-contiguous-exponents", "relocated-slices-only", "slices-reconstructed", "lower<upper", "forged-crc-slice", "relative-paths"},
	})
	SetMeta("C02", &Meta{
		Level:       "exploration",
		Rule:        "the C01/C04 workloads plus hostile recovery files (stale volume with the same recovery-set id from an earlier Create of content differing past 16 KiB, foreign set, flipped/truncated/emptied/garbage volume, flipped index) and beyond-capacity states, with bystander files and sub-directories beside the set, on the simulated disk (every write observed in the access log) and on tmpfs (recursive content snapshots). Oracle: Verify makes no write call and leaves the tree unchanged; Create writes only archive members and leaves inputs unchanged; every write of Repair (successful or not) targets a protected file, carries exactly the protected bytes and is listed in RepairedPaths; every other file in the tree is byte-identical before and after. Non-trivial: Repair had work to do or a hostile recovery file was present; distinct by run class.",
		Assumptions: []string{"directories are never created or removed by gopar or by the damage actor", "on the real disk writes are inferred from snapshot differences"},
		ProbesWant:  []string{"stale-volume-same-setid", "file>=16KiB", "relative-paths"},
	})
	SetMeta("C03", &Meta{
		Level:       "exploration",
		Rule:        "as C01 but biased to the damage that separates 'all slices findable' from 'all files intact' (insert/prepend/remove bytes, swap, copy-over, lost trailing zeros, appended garbage/zeros, CRC-forged slices); recovery files intact or deleted. Oracle on every Verify result: usable+unusable == N; lower <= usable <= upper where upper = slices whose padded content occurs anywhere in the surviving files and lower = slices with a clean occurrence or in an intact file; usable recovery blocks == distinct intact blocks in the <base>.*.par2 files beside the index (reference reader); RepairPossible <=> unusable <= usable recovery blocks; no-repair-needed implies every file present and byte-identical. Non-trivial: some file was damaged and Verify returned a result; distinct by run class.",
		Assumptions: []string{"bystander files never match <base>.*.par2", "for low-entropy content the oracle is the sandwich lower <= usable <= upper (shown as probe lower<upper), never an equality"},
		ProbesWant:  []string{"lower<upper", "forged-crc-slice", "file>=16KiB", ">256-slices", "relative-paths"},
	})
	SetMeta("C04", &Meta{
		Level:       "exploration",
		Rule:        "seeded PAR1 sets (1-32 files of unequal sizes incl. empty next to non-empty and > 16 KiB, Unicode names incl. non-BMP, 1..99 volumes, relative or absolute spellings) created with the real Create (mem and tmpfs), then any subset of data files deleted/corrupted and any subset of volumes deleted; Verify (with and without the full parity check) and Repair. Oracle: counts equal the truth (usable data file <=> present with original bytes; usable volume <=> present and intact); untouched set verifies clean with AllDataOk; unusable <= usable volumes implies Repair restores everything, an error being accepted only if the GF(2^8)/0x11D determinant of the implied sub-matrix (rows: lowest-numbered usable volumes, columns: unusable files) is zero; success implies restored. Non-trivial: some data file was unusable; distinct by run class.",
		Assumptions: []string{"at least one file of a set is non-empty", "the 'unusable parity' count is a gap heuristic by the code's own documentation and is not asserted", "klauspost/reedsolomon picks the first present shards in order (read from its source)"},
		ProbesWant:  []string{"singular-case", "no-volume-left", "relative-paths", "file>=16KiB"},
	})
}
