// Command verifsim is the deterministic simulator for akalin/gopar.
package main

import (
	"encoding/json"
	"flag"
	"fmt"
	"os"
	"path/filepath"
	"runtime"
	"runtime/pprof"
	"strconv"
	"time"

	"verifsim/engine"
	"verifsim/tape"
)

func main() {
	if len(os.Args) < 2 {
		fmt.Println("usage: verifsim check|child|one|replay|selftest|list ...")
		os.Exit(2)
	}
	cmd := os.Args[1]
	fs := flag.NewFlagSet(cmd, flag.ExitOnError)
	prop := fs.String("prop", "", "property id")
	tier := fs.String("tier", "quick", "quick|thorough")
	base := fs.Uint64("base", 1, "base seed")
	procs := fs.Int("procs", 0, "worker processes")
	root := fs.String("root", "/verif", "verification root")
	worker := fs.Int("worker", 0, "")
	of := fs.Int("of", 1, "")
	from := fs.Int("from", 0, "")
	scale := fs.Float64("scale", 1, "scale of run counts")
	deadline := fs.Int64("deadline", 0, "unix ms")
	hang := fs.Duration("hang", 0, "per-run watchdog (default: 2m quick, 6m thorough)")
	budget := fs.Duration("budget", 0, "search budget")
	profile := fs.String("profile", "", "")
	seed := fs.Uint64("seed", 0, "")
	local := fs.Int("local", -1, "")
	tapeFile := fs.String("tape", "", "")
	file := fs.String("file", "", "")
	n := fs.Int("n", 40, "selftest seeds per profile")
	fs.Parse(os.Args[2:])

	if *hang == 0 {
		*hang = 2 * time.Minute
		if *tier == "thorough" {
			*hang = 6 * time.Minute
		}
	}
	if err := engine.LoadKnown(filepath.Join(*root, "known_findings.json")); err != nil {
		fmt.Printf("INFRASTRUCTURE: %v\n", err)
		os.Exit(2)
	}
	exe, _ := os.Executable()
	switch cmd {
	case "list":
		for _, p := range engine.Props() {
			fmt.Println(p)
		}
	case "check":
		if *procs <= 0 {
			*procs = runtime.NumCPU()
		}
		if v := os.Getenv("VERIF_SEED"); v != "" {
			if s, err := strconv.ParseUint(v, 10, 64); err == nil {
				*base = s
			}
		}
		if *budget == 0 {
			*budget = 70 * time.Second
			if *tier == "thorough" {
				*budget = 20 * time.Minute
			}
			if v := os.Getenv("VERIF_BUDGET_S"); v != "" {
				if s, err := strconv.Atoi(v); err == nil {
					*budget = time.Duration(s) * time.Second
				}
			}
		}
		shrink := 25 * time.Second
		if *tier == "thorough" {
			shrink = 120 * time.Second
		}
		out := *root
		if v := os.Getenv("VERIF_OUT"); v != "" {
			out = v
		}
		os.Exit(engine.Check(engine.CheckConfig{Prop: *prop, Tier: *tier, Base: *base, Procs: *procs, Budget: *budget, Root: *root, Out: out, Exe: exe, Scale: *scale, Hang: *hang, ShrinkFor: shrink}))
	case "child":
		if pf := os.Getenv("VERIF_CPUPROFILE"); pf != "" {
			f, _ := os.Create(pf)
			pprof.StartCPUProfile(f)
			defer pprof.StopCPUProfile()
		}
		engine.ChildMain(*prop, *tier, *base, *worker, *of, *from, *scale, time.Unix(0, *deadline*1e6), *hang, os.Stdout)
	case "one":
		p := engine.ProfileByName(*profile)
		if p == nil {
			fmt.Println("unknown profile")
			os.Exit(2)
		}
		var t *tape.Tape
		if *tapeFile != "" {
			b, err := os.ReadFile(*tapeFile)
			if err != nil {
				fmt.Println(err)
				os.Exit(2)
			}
			var vals []uint64
			if err := json.Unmarshal(b, &vals); err != nil {
				fmt.Println(err)
				os.Exit(2)
			}
			t = tape.Replay(vals)
		} else {
			t = tape.New(*seed)
		}
		if pf := os.Getenv("VERIF_CPUPROFILE"); pf != "" {
			f, _ := os.Create(pf)
			pprof.StartCPUProfile(f)
			defer pprof.StopCPUProfile()
		}
		res := engine.Execute(p, *tier, *seed, t, *local, *hang)
		pprof.StopCPUProfile()
		b, _ := json.Marshal(res)
		fmt.Printf("R %s\n", b)
	case "replay":
		os.Exit(engine.Replay(exe, *root, *file, *hang))
	case "selftest":
		os.Exit(engine.SelfTest(exe, *root, *prop, *n))
	default:
		fmt.Println("unknown command", cmd)
		os.Exit(2)
	}
}
