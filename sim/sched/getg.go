package sched

// getg returns an opaque identity of the calling goroutine (the address
// of its g). Implemented in getg_amd64.s.
func getg() uintptr
