// Package sched is the seeded scheduler over the rsec16 coder's worker
// goroutines. Real goroutines run the real kernels; they are parked at
// the guarded yield points (hook H2) and released one at a time, the
// choice of who runs next coming from the decision tape.
package sched

import (
	"bytes"
	"fmt"
	"runtime"
	"sort"
	"strconv"
	"sync"
	"sync/atomic"
	"time"

	"github.com/akalin/gopar/rsec16"
)

// Mode of the controller.
type Mode int

const (
	// Off: hooks do nothing.
	Off Mode = iota
	// Record: workers run freely; write ranges are recorded and
	// checked (logical race check, coverage, join discipline).
	Record
	// Drive: workers are parked at every yield point and released
	// one at a time by the controller.
	Drive
	// Jitter: workers run freely but call runtime.Gosched() at
	// steps selected by a per-region mask (used under -race).
	Jitter
)

// Violation found by the controller.
type Violation struct {
	Kind   string
	Detail string
}

// Stats the controller accumulates.
type Stats struct {
	Regions         int
	DrivenSteps     int
	Releases        int
	Preemptions     int // releases of a worker different from the previous one while the previous one was still runnable
	MaxWorkers      int
	SingleSteps     int // steps seen outside any parallel region
	BudgetExhausted int // driven regions that were finished free-running after MaxDriven releases
	ScheduleHash    uint64
	RegionShapes    map[string]int
}

type iv struct{ row, s, e int }

type worker struct {
	idx     int
	g       uintptr
	lastIV  iv
	resume  chan struct{}
	writes  map[iv]bool
	steps   int
	exited  bool
	parked  bool
	entered bool
}

type event struct {
	w    *worker
	kind int // 0 enter, 1 step, 2 exit
}

type region struct {
	n, rows, dataLen int
	parent           uint64
	mu               sync.Mutex
	workers          []*worker
	byG              map[uintptr]*worker
	events           chan event
	joinCh           chan struct{}
	joined           int32
	done             chan struct{}
	mask             uint64
	mode             Mode  // mode the region was forked in
	live             int32 // current mode (atomic): Drive may degrade to Record
	extraEnters      int
	progress         int64 // steps taken by all workers (atomic); liveness evidence for freeRun
}

// Controller owns the hook table.
type Controller struct {
	mu     sync.Mutex
	mode   Mode
	region *region
	// Pick chooses the position (in the sorted runnable list) of the
	// worker to release next. last is the index of the previously
	// released worker (-1 at first) and lastRunnable whether it is
	// still runnable.
	Pick func(runnable []int, last int, lastRunnable bool) int
	// Mask supplies the Jitter mask for a new region.
	Mask func() uint64

	Violations []Violation
	Stats      Stats
	// Trace of released worker indices of the last regions (bounded).
	Trace     []int
	TraceKeep int
	Grace     time.Duration
	// MaxDriven bounds the releases of one driven region; beyond it the
	// rest of the region runs freely (count-based, hence deterministic).
	MaxDriven int
}

// New installs a controller into rsec16 and returns it.
func New() *Controller {
	c := &Controller{Grace: 30 * time.Second, TraceKeep: 4096, MaxDriven: 40000}
	c.Stats.RegionShapes = map[string]int{}
	c.Stats.ScheduleHash = 1469598103934665603
	rsec16.SetVerifHooks(&rsec16.VerifHooks{
		Fork: c.fork, Enter: c.enter, Exit: c.exit, Step: c.step, Join: c.join, Joined: c.joinedHook,
	})
	return c
}

// Uninstall removes the hooks.
func (c *Controller) Uninstall() { rsec16.SetVerifHooks(nil) }

// SetMode selects the mode for regions forked from now on.
func (c *Controller) SetMode(m Mode) {
	c.mu.Lock()
	c.mode = m
	c.mu.Unlock()
}

// Reset clears violations, stats and trace.
func (c *Controller) Reset() {
	c.mu.Lock()
	c.Violations = nil
	c.Stats = Stats{RegionShapes: map[string]int{}, ScheduleHash: 1469598103934665603}
	c.Trace = nil
	c.region = nil
	c.mu.Unlock()
}

func (c *Controller) violate(kind, format string, args ...interface{}) {
	c.mu.Lock()
	if len(c.Violations) < 16 {
		c.Violations = append(c.Violations, Violation{kind, fmt.Sprintf(format, args...)})
	}
	c.mu.Unlock()
}

// Take returns and clears the violations.
func (c *Controller) Take() []Violation {
	c.mu.Lock()
	v := c.Violations
	c.Violations = nil
	c.mu.Unlock()
	return v
}

func goid() uint64 {
	var buf [64]byte
	n := runtime.Stack(buf[:], false)
	// "goroutine 123 ["
	b := buf[:n]
	b = b[len("goroutine "):]
	i := bytes.IndexByte(b, ' ')
	id, _ := strconv.ParseUint(string(b[:i]), 10, 64)
	return id
}

// parentBlocked reports whether goroutine id is blocked in a
// WaitGroup.Wait, by inspecting the runtime's goroutine dump.
func parentBlocked(id uint64) bool {
	buf := make([]byte, 1<<16)
	for {
		n := runtime.Stack(buf, true)
		if n < len(buf) {
			buf = buf[:n]
			break
		}
		buf = make([]byte, 2*len(buf))
	}
	head := []byte("goroutine " + strconv.FormatUint(id, 10) + " [")
	i := bytes.Index(buf, head)
	for i > 0 && buf[i-1] != '\n' {
		j := bytes.Index(buf[i+1:], head)
		if j < 0 {
			return false
		}
		i = i + 1 + j
	}
	if i < 0 {
		return false
	}
	rest := buf[i+len(head):]
	end := bytes.Index(rest, []byte("\n\n"))
	if end < 0 {
		end = len(rest)
	}
	blk := rest[:end]
	st := blk
	if k := bytes.IndexByte(st, ']'); k >= 0 {
		st = st[:k]
	}
	if bytes.HasPrefix(st, []byte("semacquire")) || bytes.HasPrefix(st, []byte("sync.WaitGroup.Wait")) {
		return bytes.Contains(blk, []byte("sync.(*WaitGroup).Wait"))
	}
	return false
}

func (c *Controller) fork(n, rows, dataLen int) {
	c.mu.Lock()
	mode := c.mode
	if mode == Off {
		c.mu.Unlock()
		return
	}
	if c.region != nil {
		// A region is still active: nested or concurrent regions are
		// not something gopar does; record and pass through.
		c.mu.Unlock()
		c.violate("nested-region", "Fork(%d) while a region is active", n)
		return
	}
	r := &region{n: n, rows: rows, dataLen: dataLen, byG: map[uintptr]*worker{},
		events: make(chan event, 4*n+16), joinCh: make(chan struct{}, 1), done: make(chan struct{}), mode: mode, live: int32(mode)}
	if mode == Jitter && c.Mask != nil {
		r.mask = c.Mask()
	}
	c.region = r
	c.Stats.Regions++
	if n > c.Stats.MaxWorkers {
		c.Stats.MaxWorkers = n
	}
	c.Stats.RegionShapes[fmt.Sprintf("len=%d,workers=%d", dataLen, n)]++
	c.mu.Unlock()
	if mode == Drive {
		r.parent = goid()
		go c.drive(r)
	} else {
		close(r.done)
	}
}

func (r *region) cur() Mode { return Mode(atomic.LoadInt32(&r.live)) }

func (c *Controller) cur() *region {
	c.mu.Lock()
	r := c.region
	c.mu.Unlock()
	return r
}

func (c *Controller) enter(i int) {
	r := c.cur()
	if r == nil {
		return
	}
	w := &worker{idx: i, g: getg(), resume: make(chan struct{}, 1), writes: map[iv]bool{}, entered: true}
	r.mu.Lock()
	dup := false
	for _, o := range r.workers {
		if o.idx == i {
			dup = true
		}
	}
	if i < 0 || i >= r.n || dup {
		r.extraEnters++
	}
	r.workers = append(r.workers, w)
	r.byG[w.g] = w
	r.mu.Unlock()
	if r.cur() == Drive {
		r.events <- event{w, 0}
		<-w.resume
	}
}

func (c *Controller) step(outStart, outEnd, dataStart, dataEnd, row, col int) {
	r := c.cur()
	if r == nil {
		if c.mode != Off {
			c.mu.Lock()
			c.Stats.SingleSteps++
			c.mu.Unlock()
		}
		return
	}
	id := getg()
	r.mu.Lock()
	w := r.byG[id]
	r.mu.Unlock()
	if w == nil {
		return
	}
	if cur := (iv{row, dataStart, dataEnd}); cur != w.lastIV || w.steps == 0 {
		w.writes[cur] = true
		w.lastIV = cur
	}
	w.steps++
	atomic.AddInt64(&r.progress, 1)
	switch r.cur() {
	case Drive:
		r.events <- event{w, 1}
		<-w.resume
	case Jitter:
		if r.mask&(1<<(uint(w.idx*7+w.steps)%64)) != 0 {
			runtime.Gosched()
		}
	}
}

func (c *Controller) exit(i int, rec interface{}) bool {
	r := c.cur()
	if r == nil {
		return true
	}
	id := getg()
	r.mu.Lock()
	w := r.byG[id]
	r.mu.Unlock()
	if rec != nil {
		c.violate("worker-panic", "worker %d panicked: %v", i, rec)
	}
	if w != nil {
		r.mu.Lock()
		w.exited = true
		r.mu.Unlock()
		if r.cur() == Drive {
			r.events <- event{w, 2}
		}
	}
	return false
}

func (c *Controller) join() {
	r := c.cur()
	if r == nil {
		return
	}
	select {
	case r.joinCh <- struct{}{}:
	default:
	}
}

func (c *Controller) joinedHook() {
	r := c.cur()
	if r == nil {
		return
	}
	atomic.StoreInt32(&r.joined, 1)
	if r.mode == Drive {
		// the controller notices joined-early itself (it checks the
		// flag before releasing anybody) and drains; wait for it.
		select {
		case <-r.done:
		case <-time.After(c.Grace):
			c.violate("hang", "controller did not finish within %v after the parent passed the join", c.Grace)
		}
	} else {
		r.mu.Lock()
		live := 0
		for _, w := range r.workers {
			if !w.exited {
				live++
			}
		}
		entered := len(r.workers)
		r.mu.Unlock()
		if live > 0 || entered < r.n {
			c.violate("joined-early", "parent passed the join with %d live and %d/%d entered workers", live, entered, r.n)
			// let stragglers finish so the range check below and the
			// caller's byte comparison are not racing with them
			deadline := time.Now().Add(c.Grace)
			for time.Now().Before(deadline) {
				r.mu.Lock()
				live = 0
				for _, w := range r.workers {
					if !w.exited {
						live++
					}
				}
				entered = len(r.workers)
				r.mu.Unlock()
				if live == 0 && entered >= r.n {
					break
				}
				time.Sleep(100 * time.Microsecond)
			}
		}
	}
	c.checkRanges(r)
	c.mu.Lock()
	c.region = nil
	c.mu.Unlock()
}

func (c *Controller) record(idx int) {
	c.Stats.ScheduleHash = (c.Stats.ScheduleHash ^ uint64(idx+1)) * 1099511628211
	if len(c.Trace) < c.TraceKeep {
		c.Trace = append(c.Trace, idx)
	}
}

func (c *Controller) drive(r *region) {
	defer close(r.done)
	parked := map[*worker]bool{}
	exited := 0
	entered := 0
	timeout := time.NewTimer(c.Grace)
	defer timeout.Stop()
	// 1. all announced workers must arrive and park
	for entered < r.n {
		select {
		case ev := <-r.events:
			switch ev.kind {
			case 0:
				entered++
				parked[ev.w] = true
			case 2:
				exited++
				delete(parked, ev.w)
			}
		case <-timeout.C:
			c.violate("worker-count", "only %d of %d announced workers started within %v", entered, r.n, c.Grace)
			c.freeRun(r, parked, entered-exited)
			return
		}
	}
	// 2. the parent must reach the join and block there
	select {
	case <-r.joinCh:
	case <-timeout.C:
		c.violate("hang", "parent did not reach the join within %v", c.Grace)
		c.freeRun(r, parked, entered-exited)
		return
	}
	deadline := time.Now().Add(c.Grace)
	for {
		if atomic.LoadInt32(&r.joined) != 0 {
			c.violate("joined-early", "parent passed the join while all %d workers were still parked at their first yield point", len(parked))
			c.freeRun(r, parked, entered-exited)
			return
		}
		if parentBlocked(r.parent) {
			break
		}
		if time.Now().After(deadline) {
			c.violate("hang", "parent neither blocked in the join nor passed it within %v", c.Grace)
			c.freeRun(r, parked, entered-exited)
			return
		}
		runtime.Gosched()
	}
	// 3. release one worker at a time
	last := -1
	released := 0
	for len(parked) > 0 {
		released++
		if c.MaxDriven > 0 && released > c.MaxDriven {
			c.mu.Lock()
			c.Stats.BudgetExhausted++
			c.mu.Unlock()
			c.freeRun(r, parked, entered-exited)
			return
		}
		if atomic.LoadInt32(&r.joined) != 0 {
			c.violate("joined-early", "parent passed the join with %d workers still parked", len(parked))
			c.freeRun(r, parked, entered-exited)
			return
		}
		runnable := make([]int, 0, len(parked))
		byIdx := map[int]*worker{}
		for w := range parked {
			runnable = append(runnable, w.idx)
			byIdx[w.idx] = w
		}
		sort.Ints(runnable)
		lastRunnable := false
		for _, x := range runnable {
			if x == last {
				lastRunnable = true
			}
		}
		pos := 0
		if c.Pick != nil && len(runnable) > 1 {
			pos = c.Pick(runnable, last, lastRunnable)
			if pos < 0 || pos >= len(runnable) {
				pos = 0
			}
		}
		w := byIdx[runnable[pos]]
		c.mu.Lock()
		c.Stats.Releases++
		if lastRunnable && w.idx != last {
			c.Stats.Preemptions++
		}
		c.record(w.idx)
		c.mu.Unlock()
		last = w.idx
		delete(parked, w)
		w.resume <- struct{}{}
		// wait for this worker's next event (events from others cannot
		// occur: they are all parked)
		select {
		case ev := <-r.events:
			switch ev.kind {
			case 0:
				// a late extra worker
				entered++
				parked[ev.w] = true
				// still need the event of the released worker
				ev2 := <-r.events
				if ev2.kind == 1 {
					parked[ev2.w] = true
				}
			case 1:
				parked[ev.w] = true
				c.mu.Lock()
				c.Stats.DrivenSteps++
				c.mu.Unlock()
			case 2:
				exited++
			}
		case <-time.After(c.Grace):
			c.violate("hang", "worker %d did not reach its next yield point within %v", w.idx, c.Grace)
			c.freeRun(r, parked, entered-exited)
			return
		}
	}
}

// freeRun ends the controlled part of a region: the region degrades to
// Record mode (yield points no longer park), everything parked is
// released, events already in flight are answered, and the call returns
// when every worker that entered has exited. Used after a violation and
// when a region's drive budget is exhausted, so that no goroutine is
// left parked.
func (c *Controller) freeRun(r *region, parked map[*worker]bool, _ int) {
	atomic.StoreInt32(&r.live, int32(Record))
	for w := range parked {
		w.resume <- struct{}{}
	}
	// the verdict "hang" is about absence of progress, not about speed:
	// the grace period restarts whenever a worker took a step or exited
	deadline := time.Now().Add(c.Grace)
	lastProgress, lastLive := atomic.LoadInt64(&r.progress), -1
	for {
		drained := false
		for !drained {
			select {
			case ev := <-r.events:
				if ev.kind != 2 {
					ev.w.resume <- struct{}{}
				}
			default:
				drained = true
			}
		}
		r.mu.Lock()
		live := 0
		for _, w := range r.workers {
			if !w.exited {
				live++
			}
		}
		r.mu.Unlock()
		if live == 0 {
			return
		}
		if p := atomic.LoadInt64(&r.progress); p != lastProgress || live != lastLive {
			lastProgress, lastLive = p, live
			deadline = time.Now().Add(c.Grace)
		}
		if time.Now().After(deadline) {
			c.violate("hang", "%d workers neither took a step nor exited within %v while the region was finished free-running", live, c.Grace)
			return
		}
		time.Sleep(20 * time.Microsecond)
	}
}

func (c *Controller) checkRanges(r *region) {
	r.mu.Lock()
	ws := append([]*worker(nil), r.workers...)
	extra := r.extraEnters
	r.mu.Unlock()
	if extra > 0 || len(ws) != r.n {
		c.violate("worker-count", "%d workers entered (%d out of range or duplicate) but %d were announced", len(ws), extra, r.n)
	}
	sort.Slice(ws, func(i, j int) bool { return ws[i].idx < ws[j].idx })
	type piece struct{ s, e, w int }
	rows := map[int][]piece{}
	for _, w := range ws {
		for k := range w.writes {
			rows[k.row] = append(rows[k.row], piece{k.s, k.e, w.idx})
		}
	}
	for row := 0; row < r.rows; row++ {
		ps := rows[row]
		sort.Slice(ps, func(i, j int) bool {
			if ps[i].s != ps[j].s {
				return ps[i].s < ps[j].s
			}
			if ps[i].e != ps[j].e {
				return ps[i].e < ps[j].e
			}
			return ps[i].w < ps[j].w
		})
		pos := 0
		for k, p := range ps {
			if p.e <= p.s {
				continue
			}
			for j := k + 1; j < len(ps) && ps[j].s < p.e; j++ {
				if ps[j].w != p.w && ps[j].e > ps[j].s {
					c.violate("ranges-overlap", "row %d: worker %d writes [%d,%d) and worker %d writes [%d,%d) concurrently (len=%d, workers=%d)", row, p.w, p.s, p.e, ps[j].w, ps[j].s, ps[j].e, r.dataLen, r.n)
					return
				}
			}
			if p.s > pos {
				c.violate("ranges-gap", "row %d: bytes [%d,%d) are written by no worker (len=%d, workers=%d)", row, pos, p.s, r.dataLen, r.n)
				return
			}
			if p.e > pos {
				pos = p.e
			}
		}
		if pos < r.dataLen {
			c.violate("ranges-gap", "row %d: bytes [%d,%d) are written by no worker (len=%d, workers=%d)", row, pos, r.dataLen, r.dataLen, r.n)
			return
		}
		if pos > r.dataLen {
			c.violate("ranges-overlap", "row %d: a worker writes up to %d beyond the shard length %d", row, pos, r.dataLen)
			return
		}
	}
	for row := range rows {
		if row < 0 || row >= r.rows {
			c.violate("ranges-overlap", "write to row %d outside [0,%d)", row, r.rows)
			return
		}
	}
}
