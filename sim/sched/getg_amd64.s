#include "textflag.h"

// func getg() uintptr
// Returns the address of the current goroutine's g structure, used only
// as an opaque identity of the running goroutine.
TEXT ·getg(SB),NOSPLIT,$0-8
	MOVQ (TLS), AX
	MOVQ AX, ret+0(FP)
	RET
