// Package tape is the single source of decisions of a simulated run.
//
// Every choice the simulator makes (world generation, workload, fault
// plan, schedule) is a Draw. In generate mode the value comes from a
// PRNG seeded by the run seed and is recorded; in replay mode it is the
// next recorded value reduced modulo n (0 once the tape is exhausted).
// A run is therefore a pure function of its tape, which is what makes
// replay exact and tape-level minimisation possible.
package tape

import "fmt"

// Rec is one recorded decision.
type Rec struct {
	V     uint64 `json:"v"`
	N     uint64 `json:"n"`
	Label string `json:"l,omitempty"`
	Depth int    `json:"d,omitempty"`
}

// Mark is a frame boundary: Open/Close hold indices into the draw list.
type Mark struct {
	Label string
	Start int
	End   int
	Depth int
}

// Tape records or replays decisions.
type Tape struct {
	replay   bool
	in       []uint64
	pos      int
	rng      splitmix
	Recs     []Rec
	Frames   []Mark
	open     []int
	Overrun  int // draws made past the end of a replayed tape
	MaxDraws int // safety bound
}

type splitmix struct{ s uint64 }

func (r *splitmix) next() uint64 {
	r.s += 0x9e3779b97f4a7c15
	z := r.s
	z = (z ^ (z >> 30)) * 0xbf58476d1ce4e5b9
	z = (z ^ (z >> 27)) * 0x94d049bb133111eb
	return z ^ (z >> 31)
}

// Mix derives the i-th run seed from a base seed.
func Mix(base uint64, i uint64) uint64 {
	r := splitmix{s: base ^ (i+1)*0xd1342543de82ef95}
	r.next()
	return r.next()
}

// New returns a generating tape.
func New(seed uint64) *Tape {
	return &Tape{rng: splitmix{s: seed}, MaxDraws: 4000000}
}

// Replay returns a tape that replays vals.
func Replay(vals []uint64) *Tape {
	return &Tape{replay: true, in: vals, MaxDraws: 4000000}
}

// ErrTooManyDraws is the panic value used when a run draws without bound.
type ErrTooManyDraws struct{}

// Draw returns a value in [0,n). n must be >= 1.
func (t *Tape) Draw(n int, label string) int {
	if n <= 0 {
		panic(fmt.Sprintf("tape: Draw(%d,%q)", n, label))
	}
	return int(t.Draw64(uint64(n), label))
}

// Draw64 returns a value in [0,n); n==0 means the full 64-bit range.
func (t *Tape) Draw64(n uint64, label string) uint64 {
	if len(t.Recs) >= t.MaxDraws {
		panic(ErrTooManyDraws{})
	}
	var raw uint64
	if t.replay {
		if t.pos < len(t.in) {
			raw = t.in[t.pos]
		} else {
			t.Overrun++
		}
		t.pos++
	} else {
		raw = t.rng.next()
	}
	v := raw
	if n != 0 {
		v = raw % n
	}
	t.Recs = append(t.Recs, Rec{V: v, N: n, Label: label, Depth: len(t.open)})
	return v
}

// Bool draws a boolean that is true with probability num/den (false is
// the "simple" value 0).
func (t *Tape) Bool(num, den int, label string) bool {
	return t.Draw(den, label) >= den-num
}

// Pick draws an index with the given integer weights (index 0 is the
// simple choice).
func (t *Tape) Pick(weights []int, label string) int {
	sum := 0
	for _, w := range weights {
		sum += w
	}
	if sum <= 0 {
		return 0
	}
	v := t.Draw(sum, label)
	for i, w := range weights {
		if v < w {
			return i
		}
		v -= w
	}
	return len(weights) - 1
}

// Range draws an integer in [lo,hi].
func (t *Tape) Range(lo, hi int, label string) int {
	if hi < lo {
		hi = lo
	}
	return lo + t.Draw(hi-lo+1, label)
}

// Begin opens a frame.
func (t *Tape) Begin(label string) {
	t.Frames = append(t.Frames, Mark{Label: label, Start: len(t.Recs), End: -1, Depth: len(t.open)})
	t.open = append(t.open, len(t.Frames)-1)
}

// End closes the innermost frame.
func (t *Tape) End() {
	if len(t.open) == 0 {
		return
	}
	i := t.open[len(t.open)-1]
	t.open = t.open[:len(t.open)-1]
	t.Frames[i].End = len(t.Recs)
}

// CloseAll closes frames left open by an aborted run.
func (t *Tape) CloseAll() {
	for len(t.open) > 0 {
		t.End()
	}
}

// Values returns the recorded (reduced) values; replaying them yields
// the same decisions.
func (t *Tape) Values() []uint64 {
	out := make([]uint64, len(t.Recs))
	for i, r := range t.Recs {
		out[i] = r.V
	}
	return out
}

// Len is the number of draws made.
func (t *Tape) Len() int { return len(t.Recs) }
