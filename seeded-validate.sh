#!/bin/bash
# usage: seeded-validate.sh <id> <Cxx> <srcdir-with-patch-and-demo> <pkg> <test-regex> [tags]
# Validates a seeded change in a scratch copy of /repo and, if everything holds, stores it as /verif/seeded/<id>/.
set -u
export GOFLAGS=-mod=mod GOPROXY=off GOSUMDB=off GOTOOLCHAIN=local
id="$1"; prop="$2"; src="$3"; pkg="$4"; rx="$5"; tags="${6:-}"
scratch=$(mktemp -d /dev/shm/seedval.XXXXXX); trap 'rm -rf "$scratch"' EXIT
cp -r /repo/. "$scratch/"; cd "$scratch"; git checkout -q -- .; git clean -fdq
demos=$(ls "$src" | grep -E '\.go$')
tagarg=""; [ -n "$tags" ] && tagarg="-tags $tags"
# 1. demo passes on the unchanged tree
for f in $demos; do cp "$src/$f" "$pkg/"; done
go test -count=1 $tagarg -run "$rx" ./$pkg >/dev/shm/seedval.base.log 2>&1; base_rc=$?
for f in $demos; do rm -f "$pkg/$f"; done
# 2. patch applies, builds, suite passes
git apply --3way "$src/patch.diff" 2>/dev/null || git apply "$src/patch.diff" || { echo "RESULT $id patch-does-not-apply"; exit 1; }
git reset -q
git diff > /dev/shm/seedval.patch
go build ./... >/dev/shm/seedval.build.log 2>&1; build_rc=$?
go test -count=1 ./... >/dev/shm/seedval.suite.log 2>&1; suite_rc=$?
# 3. demo fails with the patch
for f in $demos; do cp "$src/$f" "$pkg/"; done
go test -count=1 $tagarg -run "$rx" ./$pkg >/dev/shm/seedval.mut.log 2>&1; mut_rc=$?
for f in $demos; do rm -f "$pkg/$f"; done
# 4. my check
( cd /verif && VERIF_OUT=/dev/shm/mut-out VERIF_REPO="$scratch" VERIF_BIN_DIR="$scratch/.vbin" ./check "$prop" quick > /dev/shm/seedval.check.log 2>&1 ); check_rc=$?
det=$(grep -E "^  kind=" /dev/shm/seedval.check.log | head -1)
echo "RESULT $id demo-on-original=$base_rc(build) build=$build_rc suite=$suite_rc demo-with-patch=$mut_rc check($prop quick)=$check_rc $det"
if [ $base_rc -eq 0 ] && [ $build_rc -eq 0 ] && [ $suite_rc -eq 0 ] && [ $mut_rc -ne 0 ]; then
  out=/verif/seeded/$id; mkdir -p "$out"
  cp /dev/shm/seedval.patch "$out/patch.diff"
  for f in $demos; do cp "$src/$f" "$out/"; done
  [ -f "$src/demo.md" ] && cp "$src/demo.md" "$out/demo.md"
  python3 - "$src/meta.json" "$out/meta.json" "$id" "$prop" "$pkg" "$rx" "$check_rc" "$det" <<'PY'
import json,sys
src,dst,id_,prop,pkg,rx,rc,det=sys.argv[1:9]
try: m=json.load(open(src))
except Exception: m={}
m.update({"id":id_,"property":prop,"breaks":m.get("summary",""),"needs":m.get("needs",""),
 "validated":{"repo_head":"see git log of /repo at validation time","demo_package":pkg,"demo_run":f"go test -count=1 -run '{rx}' ./{pkg}",
  "demo_passes_on_unchanged_tree":True,"builds_with_change":True,"existing_suite_passes_with_change":True,"demo_fails_with_change":True},
 "detected_by":{"check":f"./check {prop} quick","exit":int(rc),"violation":det.strip()}})
json.dump(m,open(dst,"w"),indent=1)
PY
  echo "stored $out"
fi
