#!/usr/bin/env python3
# usage: mkbenign.py <suffix> - prepares /tmp/mut/B<n><suffix> worktrees and prompts for agents that make
# BEHAVIOUR-PRESERVING changes (refactorings / optimisations) to gopar; used to test that the checks stay quiet
# on code where the properties still hold. The prompt contains the property texts, nothing from /verif's machinery.
import json,subprocess,os,sys
suffix=sys.argv[1]
props=[json.loads(l) for l in open('/verif/properties.jsonl')]
claimed=['C01','C02','C03','C04','C06','C12','C13','C14','C15','C16','C17','C18','C20']
ptext='\n'.join(f"  [{p['id']}] {p['title']}: {p['statement']}" for p in props if p['id'] in claimed)
areas={
 'B1':"par2/decoder.go: the slice scan (fillShardInfos / fillFileIntegrityInfos / the checksum location map). For example restructure the loop, change the data structures, avoid recomputation, scan in a different but equivalent way.",
 'B2':"rsec16/matrix.go and rsec16/coder.go: how work is split among goroutines and how results are assembled (for example different chunk sizes, splitting by output rows for some shapes, a worker pool, reusing buffers safely). Keep the calls to verifStep/verifFork/verifEnter/verifExit/verifJoin/verifJoined meaningful where the existing code has them (they are inert instrumentation), and do not edit verif_*.go files.",
 'B3':"the file I/O layer and the ORDER of I/O in par2 (defaultFileIO, volume discovery, the order in which data files and volume files are read, when files are written). For example read recovery files before data files, sort or de-duplicate discovered volume names, use os instead of ioutil, write via a helper - all without changing any observable result.",
 'B4':"par1/decoder.go, par1/encoder.go, par1/volume.go, par1/file_entry.go: restructure parsing and the repair loop, modernise helpers (encoding/binary, utf16), precompute things, without changing results.",
 'B5':"cmd/par/main.go: refactor flag handling, command dispatch, messages and error classification WITHOUT changing any exit status or what is written to disk (output text may change).",
 'B6':"par2/encoder.go, par2/file.go, par2/packet.go and the packet readers/writers: restructure how packets are built, parsed and dispatched, buffer handling, error wrapping - without changing the bytes written or what is accepted.",
}
T='''You are helping test a verification effort for the Go project akalin/gopar (a Go implementation of the PAR1 and PAR2 parity-archive formats with its own GF(2^16) arithmetic, Reed-Solomon coder and a `par` CLI). You have your own scratch git worktree of the repository at {wt} . Work ONLY inside {wt} (source edits) and {out} (your deliverables). Never read or write anything under /repo or /verif.

Every shell call needs: export GOFLAGS=-mod=mod GOPROXY=off GOSUMDB=off GOTOOLCHAIN=local   (no network; default `go` is 1.23). Run the test suite with: cd {wt} && go test -count=1 ./...

The project is supposed to satisfy these semantic properties:
{ptext}

YOUR TASK: make a SUBSTANTIAL but strictly BEHAVIOUR-PRESERVING change to the non-test source - a refactoring, modernisation or optimisation that a maintainer might really commit - in this area:
  {area}
The change must keep EVERY property above true for every input they quantify over (think hard about corner cases: empty/short files, final partial slices, duplicate content, missing files, damaged or foreign recovery files, names with unusual characters, many goroutines, I/O errors at any call). It should be big enough to be interesting (roughly 40-150 changed lines), change internal structure, control flow, data structures or the order of internal operations, and it must compile, pass `go vet`, and pass the unedited test suite (go test -count=1 ./...). Also run `go build -tags verif ./...`. Do not edit *_test.go or verif_*.go files; do not add dependencies.
If you are not sure that something preserves behaviour, do not do it. After writing the change, review it once more specifically looking for behaviour differences, and fix any you find.

Deliverables in {out}/ :
  - patch.diff : output of `git diff` in {wt} (source change only), applicable with `git apply` at the worktree root.
  - meta.json : {{"id": "{wid}", "area": "...", "summary": "...what was changed...", "why_preserving": "...the argument that no property is affected...", "risks_considered": [...], "files_changed": [...]}}
Leave {wt} with the change applied and the full test suite passing. Your final message should summarise the change and the argument that it preserves behaviour.
'''
os.makedirs('/tmp/mut',exist_ok=True)
for k,area in areas.items():
    wid=k+suffix
    subprocess.run(['git','-C','/repo','worktree','add','-q','--detach',f'/tmp/mut/{wid}','HEAD'],check=True)
    os.makedirs(f'/tmp/mut/{wid}.out',exist_ok=True)
    open(f'/tmp/mut/{wid}.prompt','w').write(T.format(wt=f'/tmp/mut/{wid}',out=f'/tmp/mut/{wid}.out',ptext=ptext,area=area,wid=wid))
print('prepared benign wave',suffix)
