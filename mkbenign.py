#!/usr/bin/env python3
# usage: mkbenign.py <suffix> - prepares /tmp/mut/B<n><suffix> worktrees and prompts for agents that make
# BEHAVIOUR-PRESERVING changes (refactorings / optimisations) to gopar; used to test that the checks stay quiet
# on code where the properties still hold. The prompt contains the property texts, nothing from /verif's machinery.
import json,subprocess,os,sys
suffix=sys.argv[1]
props=[json.loads(l) for l in open('/verif/properties.jsonl')]
claimed=['C01','C02','C03','C04','C06','C12','C13','C14','C15','C16','C17','C18','C20']
ptext='\n'.join(f"  [{p['id']}] {p['title']}: {p['statement']}" for p in props if p['id'] in claimed)
areas_a={
 'B1':"par2/decoder.go: the slice scan (fillShardInfos / fillFileIntegrityInfos / the checksum location map). For example restructure the loop, change the data structures, avoid recomputation, scan in a different but equivalent way.",
 'B2':"rsec16/matrix.go and rsec16/coder.go: how work is split among goroutines and how results are assembled (for example different chunk sizes, splitting by output rows for some shapes, a worker pool, reusing buffers safely). Keep the calls to verifStep/verifFork/verifEnter/verifExit/verifJoin/verifJoined meaningful where the existing code has them (they are inert instrumentation), and do not edit verif_*.go files.",
 'B3':"the file I/O layer and the ORDER of I/O in par2 (defaultFileIO, volume discovery, the order in which data files and volume files are read, when files are written). For example read recovery files before data files, sort or de-duplicate discovered volume names, use os instead of ioutil, write via a helper - all without changing any observable result.",
 'B4':"par1/decoder.go, par1/encoder.go, par1/volume.go, par1/file_entry.go: restructure parsing and the repair loop, modernise helpers (encoding/binary, utf16), precompute things, without changing results.",
 'B5':"cmd/par/main.go: refactor flag handling, command dispatch, messages and error classification WITHOUT changing any exit status or what is written to disk (output text may change).",
 'B6':"par2/encoder.go, par2/file.go, par2/packet.go and the packet readers/writers: restructure how packets are built, parsed and dispatched, buffer handling, error wrapping - without changing the bytes written or what is accepted.",
}
areas_b={
 'B1':"par2: change observable details that NONE of the properties constrain - error message texts and which of several applicable errors is returned first, the order of entries in RepairResult.RepairedPaths, the creator packet's text, the number and order of delegate callbacks that carry no error, the order in which Repair writes the files it has to write.",
 'B2':"par2 Create output layout where the PAR2 format and the properties leave freedom: the order of packets inside the index and volume files, repeating critical packets between recovery packets, how recovery blocks are distributed over volume files and how those files are numbered/named (still '<base>.volNNN+MMM.par2'-like names matching '<base>.*.par2'), as long as the result is a conformant set with the same recovery blocks.",
 'B3':"par1: change observable details that the properties do not constrain - error texts, the order of checks that lead to the same accept/reject decision, delegate callback details, the order in which missing files are written by Repair, reading volumes in a different order (for example highest number first) with the same final result.",
 'B4':"cmd/par: change everything about the CLI that the exit-status property does not constrain: wording and order of messages, additional informational output, flag help texts, log prefixes - keep exit statuses and on-disk effects exactly.",
 'B5':"rsec16: change the parallel execution strategy in ways no property constrains: a different number of worker goroutines than requested when fewer suffice, workers processing their ranges in a different internal order (columns outer, rows inner; or last range first), starting workers lazily. Keep the calls to verifStep/verifFork/verifEnter/verifExit/verifJoin/verifJoined meaningful where the existing code has them and do not edit verif_*.go files. Results (bytes) must be unchanged.",
 'B6':"par2 Verify/Repair internals: when and how often files are read (for example reading each data file only once and caching it between load and repair, or re-reading the index), skipping work that cannot change the result (not building the coder when nothing is missing), freeing memory early - with identical results, errors and written files.",
}
areas_c={
 'B1':"defaults and limits that no property fixes: change the library and CLI defaults (for example default slice size 4096 and 5 recovery blocks/volumes, another default goroutine count), keeping the exported default constants and the documentation consistent with the new values, and keeping explicit option values working exactly as before.",
 'B2':"rsec16: add a second, CORRECT parallel strategy and use it for some shapes - for example split the OUTPUT ROWS among goroutines (applyMatrixParallelOut already exists) when there are many parity/output rows and short shards, and split the data range otherwise. Results must be byte-identical to the single-goroutine result for every shape and goroutine count. Do not edit verif_*.go files; keep the existing verif* calls where the existing code has them.",
 'B3':"par2 reader tolerance: act on the 'TODO: Relax this check' comments in par2/file.go and par2/decoder.go CORRECTLY - a volume file that contains a damaged packet, trailing garbage or a truncated last packet should still contribute its intact packets of this set instead of making the whole Verify/Repair fail; the index file may stay strict. Every packet that is used must still pass its own MD5 check and set-id check, no count may ever include a block that is not intact, and nothing may panic on any input.",
 'B4':"par1 reader convenience: find the index and the volume files case-insensitively (x.PAR, x.P01) and tolerate a volume whose file list carries a different comment or status bits than the index while its set hash matches, CORRECTLY and without weakening any check that protects the results.",
 'B5':"correct process-wide caching: cache things that are pure functions of their inputs across calls in one process (for example the GF(2^16) parity matrix per (data shards, parity shards), CRC window tables per slice size) behind a mutex, with complete cache keys, so that repeated operations in one process get faster but results never change.",
 'B6':"par2 Repair robustness that no property forbids: when Repair has to rewrite several files, order the writes so that a file whose current content holds slices needed by another not-yet-written file is written later, and keep everything else (hash checks before every write, the list of written files, error behaviour) exactly as it is.",
}
areas_d={
 'B1':"par2 Verify/Repair: read the data files CONCURRENTLY (a bounded number of goroutines calling fileIO.ReadFile and scanning/hashing in parallel), correctly: results, counts, delegate callback ORDER and CONTENT per file, and the error returned (the error of the first file in recovery-set order that failed) must be exactly what the sequential code produces; on an error no goroutine may be left running when the call returns.",
 'B2':"par2 Create: write the recovery volume files CONCURRENTLY after the index file (bounded goroutines calling fileIO.WriteFile), correctly: the same files with the same bytes, every write error reported (return the error of the lowest-numbered volume that failed), delegate callbacks delivered from one goroutine in volume order, nothing left running when Write returns.",
 'B3':"par1 Verify/Repair: probe and read the parity volume files CONCURRENTLY (bounded goroutines), correctly: same volumes accepted, same counts, same error precedence as the sequential loop (the lowest-numbered failing volume decides), delegate callbacks in volume order from one goroutine.",
 'B4':"par2 Create: hash and checksum the input files CONCURRENTLY (file MD5s, 16k hashes, slice CRC/MD5 pairs computed by a worker pool, one file per task), correctly: byte-identical output for every goroutine count, same errors, same delegate order.",
}
areas_e={
 'B1':"par2 Decoder.Repair: restructure the write phase CORRECTLY - first reassemble and hash-check EVERY file that needs rewriting (into freshly allocated buffers that alias nothing else), and only when all of them have passed start writing; keep: only files that are missing or damaged are written, exactly the protected bytes, every written file listed in RepairedPaths (also when a later write fails), the first write error returned at once, no write after a failed write.",
 'B2':"par2 Create (encoder.go / create.go): read and process the input files in a different internal order or in two passes (for example sort the paths first, or hash in one pass and feed the coder in a second pass that re-reads the files), CORRECTLY: byte-identical output for every listing order and spelling, every read error reported as failure (no retries), inputs never written.",
 'B3':"error plumbing across par1, par2 and cmd/par: wrap every I/O error with context (operation and path) using fmt.Errorf with %w, replace `==` comparisons of errors by errors.Is / errors.As where needed so that the classification (file does not exist => damage, everything else => error; exit statuses of the CLI) stays EXACTLY the same, including for wrapped errors, io.ErrUnexpectedEOF, io.ErrShortWrite and any errno.",
 'B4':"gf2p16/matrix.go and rsec16: a different but CORRECT elimination strategy in the matrix inversion / row reduction (for example choose the pivot row differently among the non-zero candidates, normalise rows at another point, eliminate above and below in one sweep, or invert via a different standard algorithm); the same set of rows (lowest available exponents) must be used, singular matrices must still be reported as errors, results bit-identical.",
 'B5':"par2 Verify/Repair scanning shortcuts that are CORRECT: skip the sliding scan of a data file whose whole-file hashes prove it intact (register its slices directly), stop scanning further files only when every slice of the set has really been located (count each slice once), never skip a file that might hold slices of other files unless all slices are already located; counts, hit/miss delegate totals may change only where no property constrains them, ShardCounts must not change.",
 'B6':"par1: compute the 16k hash and the full MD5 of each data file in a single pass and avoid keeping redundant copies of file data, CORRECTLY for files shorter than, equal to and longer than 16 KiB, for missing, truncated, grown and corrupt files (decisions must be keyed on the bytes actually read, never on the expected size), with identical Verify counts, Repair results and error behaviour.",
}
areas = areas_e if suffix >= 'e' else areas_d if suffix >= 'd' else (areas_c if suffix >= 'c' else (areas_b if suffix >= 'b' else areas_a))
T='''You are helping test a verification effort for the Go project akalin/gopar (a Go implementation of the PAR1 and PAR2 parity-archive formats with its own GF(2^16) arithmetic, Reed-Solomon coder and a `par` CLI). You have your own scratch git worktree of the repository at {wt} . Work ONLY inside {wt} (source edits) and {out} (your deliverables). Never read or write anything under /repo or /verif.

Every shell call needs: export GOFLAGS=-mod=mod GOPROXY=off GOSUMDB=off GOTOOLCHAIN=local   (no network; default `go` is 1.23). Run the test suite with: cd {wt} && go test -count=1 ./...

The project is supposed to satisfy these semantic properties:
{ptext}

YOUR TASK: make a SUBSTANTIAL but strictly BEHAVIOUR-PRESERVING change to the non-test source - a refactoring, modernisation or optimisation that a maintainer might really commit - in this area:
  {area}
In this wave the point is to change things the properties leave OPEN while keeping everything they do constrain. The change must keep EVERY property above true for every input they quantify over (think hard about corner cases: empty/short files, final partial slices, duplicate content, missing files, damaged or foreign recovery files, names with unusual characters, many goroutines, I/O errors at any call). It should be big enough to be interesting (roughly 40-150 changed lines), change internal structure, control flow, data structures or the order of internal operations, and it must compile, pass `go vet`, and pass the unedited test suite (go test -count=1 ./...). Also run `go build -tags verif ./...`. Do not edit *_test.go or verif_*.go files; do not add dependencies.
If you are not sure that something preserves behaviour, do not do it. After writing the change, review it once more specifically looking for behaviour differences, and fix any you find.

Deliverables in {out}/ :
  - patch.diff : output of `git diff` in {wt} (source change only), applicable with `git apply` at the worktree root.
  - meta.json : {{"id": "{wid}", "area": "...", "summary": "...what was changed...", "why_preserving": "...the argument that no property is affected...", "risks_considered": [...], "files_changed": [...]}}
Leave {wt} with the change applied and the full test suite passing. Your final message should summarise the change and the argument that it preserves behaviour.
'''
os.makedirs('/tmp/mut',exist_ok=True)
for k,area in areas.items():
    wid=k+suffix
    subprocess.run(['git','-C','/repo','worktree','add','-q','--detach',f'/tmp/mut/{wid}','HEAD'],check=True)
    os.makedirs(f'/tmp/mut/{wid}.out',exist_ok=True)
    open(f'/tmp/mut/{wid}.prompt','w').write(T.format(wt=f'/tmp/mut/{wid}',out=f'/tmp/mut/{wid}.out',ptext=ptext,area=area,wid=wid))
print('prepared benign wave',suffix)
