#!/bin/bash
# usage: mutant-test.sh <patch.diff> <Cxx> [tier]  - applies a seeded change to /repo, runs the check, reverts.
set -u
patch="$1"; prop="$2"; tier="${3:-quick}"
cd /repo || exit 2
if [ -n "$(git status --porcelain)" ]; then echo "repo dirty"; exit 2; fi
git apply --3way "$patch" 2>/dev/null || git apply "$patch" || { echo "PATCH DOES NOT APPLY"; git checkout -- . ; git reset -q; exit 3; }
git reset -q
( cd /verif && VERIF_BUDGET_S="${VERIF_BUDGET_S:-70}" ./check "$prop" "$tier" 2>&1 | grep -E "VIOLATION|kind=|KNOWN|INFRA|^property=" )
rc=${PIPESTATUS[0]}
git checkout -- . ; git clean -fdq -- . 2>/dev/null
echo "exit=$rc"
