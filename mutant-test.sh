#!/bin/bash
# usage: mutant-test.sh <patch.diff> <Cxx> [tier]
# Applies a seeded change to a scratch copy of /repo (outside /repo and /verif), runs the
# property's check against that copy (VERIF_REPO), and removes the copy. /repo is not touched.
set -u
patch="$(readlink -f "$1")"; prop="$2"; tier="${3:-quick}"
scratch=$(mktemp -d /dev/shm/mrepo.XXXXXX)
trap 'rm -rf "$scratch"' EXIT
cp -r /repo/. "$scratch/" || exit 2
cd "$scratch" || exit 2
git checkout -q -- . 2>/dev/null
git apply --3way "$patch" 2>/dev/null || git apply "$patch" || { echo "PATCH DOES NOT APPLY"; exit 3; }
( cd /verif && VERIF_OUT="${VERIF_OUT:-/dev/shm/mut-out}" VERIF_REPO="$scratch" VERIF_BIN_DIR="$scratch/.vbin" VERIF_BUDGET_S="${VERIF_BUDGET_S:-70}" ./check "$prop" "$tier" 2>&1 | grep -E "VIOLATION|kind=|KNOWN|INFRA|^property=" )
exit 0
