#!/bin/bash
# usage: benign-test.sh <patch.diff> [tier]
# Runs every registered check against a scratch copy of /repo with a behaviour-preserving change applied
# (outside /repo and /verif) and prints one line per check; any VIOLATION is a false alarm of the machinery
# (or a behaviour change after all - to be decided by reading the replay).
set -u
patch="$(readlink -f "$1")"; tier="${2:-quick}"
scratch=$(mktemp -d /dev/shm/brepo.XXXXXX)
trap 'rm -rf "$scratch"' EXIT
cp -r /repo/. "$scratch/" || exit 2
cd "$scratch" || exit 2
git checkout -q -- . 2>/dev/null
git apply --3way "$patch" 2>/dev/null || git apply "$patch" || { echo "PATCH DOES NOT APPLY"; exit 3; }
export GOFLAGS=-mod=mod GOPROXY=off GOSUMDB=off GOTOOLCHAIN=local
go build ./... && go test -count=1 ./... >/dev/shm/benign.suite.log 2>&1 || { echo "SUITE FAILS WITH THE CHANGE"; tail -5 /dev/shm/benign.suite.log; }
for p in $(jq -r '.checks[].property_id' /verif/MANIFEST.json); do
  out=$(cd /verif && VERIF_OUT=/dev/shm/benign-out VERIF_REPO="$scratch" VERIF_BIN_DIR="$scratch/.vbin" ./check "$p" "$tier" 2>&1 | grep -E "VIOLATION|kind=|^property=" | cut -c1-400)
  echo "$out" | tail -3
done
